"""Per-property pass configuration: which generator families run, with what share of the budget."""
CFG = {}
