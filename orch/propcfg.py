"""Per-property pass configuration: which generator families run, with what share of the budget."""
CFG = {
    "C18": {
        "passes": [
            {"prop": "C18", "share": 0.45, "name": "dense"},
            {"prop": "C18", "share": 0.55, "name": "dense-race", "race": True},
        ],
        "evidence": {"race_detector": "second pass runs the same plan family on a -race build; a report whose stacks include pion/turn frames kills the worker and is replayed"},
    },
}
