"""Per-property pass configuration: which generator families run, with what share of the budget."""
RACE_ENV = {"VERIF_RACEMODE": "1"}
CFG = {
    "C18": {
        "passes": [
            {"prop": "C18", "share": 0.22, "name": "dense"},
            {"prop": "C12", "share": 0.07, "name": "client-transactions"},
            {"prop": "C13", "share": 0.07, "name": "client-relay-socket"},
            {"prop": "C18", "share": 0.18, "name": "free-race-server", "race": True, "env": RACE_ENV, "workers": 8},
            {"prop": "C14", "share": 0.14, "name": "free-race-e2e", "race": True, "env": RACE_ENV, "workers": 8},
            {"prop": "C16", "share": 0.08, "name": "free-race-tcp-relay", "race": True, "env": RACE_ENV, "workers": 8},
            {"prop": "C13", "share": 0.12, "name": "free-race-client-relay", "race": True, "env": RACE_ENV, "workers": 8},
            {"prop": "C12", "share": 0.08, "name": "free-race-client-transactions", "race": True, "env": RACE_ENV, "workers": 8},
            {"prop": "C17-concurrent", "share": 0.04, "name": "free-race-concurrent-auth", "race": True, "env": RACE_ENV, "workers": 8},
        ],
        "evidence": {"race_detector": "the free-race passes run the server-world plans (UDP and TCP listeners, TCP relay with scripted clients and with the real client's TCPAllocation - Dial, Accept, data connections; real client + real server) and the client-world plans "
                     "(real client against the scripted server: concurrent WriteTo/ReadFrom/Close/transactions) on a -race build in "
                     "free-running mode: no scheduler steps, no harness locks or counters on library paths (except simnet's own registry lock when a TCP connection is made or closed), timers as the only network, GOMAXPROCS 4, half of the short gaps between operations collapsed to zero so that calls really coincide; "
                     "a report with pion/turn frames kills the worker and is replayed"},
    },
    "C17": {
        "passes": [
            {"prop": "C17", "share": 0.8, "name": "handlers-and-e2e"},
            {"prop": "C17-concurrent", "share": 0.2, "name": "free-race-concurrent-auth", "race": True, "env": RACE_ENV, "workers": 8},
        ],
        "evidence": {"race_detector": "one pass runs several real clients of a stream listener authenticating at the same instants through the real long-term / TURN-REST handlers, free-running on a -race build (the handler is shared by the connections' goroutines)"},
    },
}
