"""Per-property pass configuration: which generator families run, with what share of the budget."""
RACE_ENV = {"VERIF_RACEMODE": "1"}
CFG = {
    "C18": {
        "passes": [
            {"prop": "C18", "share": 0.3, "name": "dense"},
            {"prop": "C12", "share": 0.1, "name": "client-transactions"},
            {"prop": "C13", "share": 0.1, "name": "client-relay-socket"},
            {"prop": "C18", "share": 0.25, "name": "free-race-server", "race": True, "env": RACE_ENV, "workers": 8},
            {"prop": "C14", "share": 0.25, "name": "free-race-e2e", "race": True, "env": RACE_ENV, "workers": 8},
        ],
        "evidence": {"race_detector": "passes 2 and 3 run UDP-listener server-world plans (scripted clients; real client + real server) on a -race build in "
                     "free-running mode: no scheduler steps, no harness locks or counters on library paths, timers as the only network, GOMAXPROCS 4; "
                     "a report with pion/turn frames kills the worker and is replayed"},
    },
}
