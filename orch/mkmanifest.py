#!/usr/bin/env python3
"""Regenerates /verif/MANIFEST.json from the table below."""
import json, os
VERIF = os.path.dirname(os.path.dirname(os.path.abspath(__file__)))
props = [json.loads(l) for l in open(os.path.join(VERIF, "properties.jsonl"))]

SRV = ("real turn.Server / internal/server / internal/allocation / internal/proto on a simulated network, clock, crypto/rand and scheduler; "
       "scripted raw STUN clients and peers; sync.Mutex replaced by simsync in the simulated build")
CHECKS = {
 "C01": ("3.C01", "seeded plans of Allocate/CreatePermission/ChannelBind/Send/ChannelData/peer traffic from up to 4 clients and 4 peers (UDP and TCP listeners, IPv4/IPv6, permission-handler policies, timeouts, probes at deadline +-1 ns/+-1 s); every datagram leaving any relay socket must be attributable to a submission the reference model authorises at some instant of its handling interval", SRV),
 "C02": ("3.C02", "same world; every Data indication / ChannelData the server writes toward any client must be justified by a datagram that really arrived at that client's own relay from a source the reference model permits (IP permission or exact channel binding), judged over the handling interval", SRV),
 "C03": ("3.C03", "every method x credential defect x server state, through turn.Server and through the request handlers with both nonce managers and HMAC lengths 2..32, clock moved across the nonce hour; the monitor decides authenticity independently (own MD5 key, own MESSAGE-INTEGRITY check, registry of nonces this instance minted) and flags any success for a defective request, any challenge to an authentic one, missing/unusable challenges", SRV + "; forged/mutated nonces only for HMAC >= 8 bytes (forgery probability <= 2^-64)"),
 "C04": ("3.C04", "multi-client plans built to collide (same IP other port, same user on several 5-tuples, shared transaction ids, reused channel numbers, replayed messages); the reference model is keyed by 5-tuple so any cross-talk (emission from another client's relay, delivery to a non-owner, response to another address, two allocations on one 5-tuple, AllocationCount outside the model's bounds) is a model mismatch", SRV),
 "C05": ("3.C05", "payload lengths biased to 0..8, every residue mod 4, 1190..1210, 1490..1700, 65000..65507, contents random/zero/STUN-like/ChannelData-like, both directions, both encapsulations, UDP and stream listeners, several InboundMTU values; delivered bytes must equal submitted bytes, once, with the true source; must-deliver only in loss-free plans below conservative size bounds", SRV),
 "C06": ("3.C06", "requested LIFETIME in {absent,0,1,..,3599,3600,3601,86400,2^32-1}, default lifetimes 2 s..3 h, refreshes at offsets inside the current lifetime (last second, last ns), probes and idle points at deadline +-1 ns/+-1 s; granted lifetime, AllocationCount at every idle point, allocation-deleted event instant, relay after end, fresh state on re-allocation", SRV),
 "C07": ("3.C07", "permission/channel timeouts 2 s..40 min, installs and refreshes by CreatePermission/ChannelBind/mixed, probes in both directions at each computed deadline +-1 s/+-1 ns, re-bind after expiry; authorises always before last success + full timeout, never after; rejected requests change nothing", SRV),
 "C08": ("3.C08", "ChannelBind with numbers from all of uint16 biased to the range edges, peers differing only in port or IP, identical re-binds, both conflict kinds, expiry and re-bind; model bijection per allocation, 400 on conflict, no success or emission outside 0x4000-0x7FFF", SRV),
 "C10": ("3.C10", "real proto.STUNConn (and TCPAllocation.BindConnection) on a simulated stream: frame sequences (STUN bodies of 4-aligned lengths incl. 0xFFEC+, ChannelData payloads 0..8, 1400..1600, 65528..65535, cookie-prefixed payloads) under byte-at-a-time, fixed, random and coalesced segmentation and arbitrary read sizes, FIN/RST/garbage tails; returned frames must equal an independent reference framer's, be returned at quiescence once complete, consume >= 1 byte", "real internal/proto STUNConn and internal/client BindConnection; simulated TCP stream, clock, scheduler"),
 "C19": ("3.C19", "every response must carry the transaction id of a message received from the address it is sent to; Binding/Allocate mapped address = simnet ground truth; relayed address really bound, unshared, of the requested family; lifetime as then observed; same-id Allocate retransmission -> identical attributes and nothing created; new-id Allocate -> 437", SRV),
}
CLI = "real turn.Client / internal/client on a simulated socket, clock and scheduler against a scripted TURN server (own STUN codec via pion/stun); sync.Mutex replaced by simsync"
CHECKS.update({
 "C12": ("3.C12", "every subset of the 7 transmissions lost, a response after the k-th transmission at any delay (before/after the next timer, after failure), duplicates, foreign transaction ids, 1..5 overlapping transactions, Close at any step, write error on the k-th transmission, RTO 1 ms..1.6 s; each call returns once, with the first delivered response of its own id or an error, transmissions exactly at t0+sum min(RTO*2^i,1.6 s), at most 7, failure at the 8th instant, nothing sent afterwards, table empty", CLI),
 "C13": ("3.C13", "WriteTo/ReadFrom/SetReadDeadline/Close from concurrent application actors, server reactions success/400/403/438/silence/late to CreatePermission and ChannelBind, injected Data indications / ChannelData on known and unknown channels / ConnectionAttempt bursts larger than the queues; wire order respects delivered CreatePermission/ChannelBind successes, channel numbers distinct and in range, reads equal relayed payloads with the right address, deadlines and Close release blocked readers at that instant, a liveness transaction after the bursts", CLI),
 "C14": ("3.C14", "real client against the real server for 1-8 virtual hours, 1-8 peers, constant to hours-idle traffic, server timeouts compatible with the client's refresh cadence, budgeted loss/duplication/delay on the control channel; every probe in both directions is delivered across the allocation/permission/channel/nonce horizons and AllocationCount drops after Close (known finding KF-C14-1)", SRV + "; real turn.Client"),
 "C15": ("3.C15", "operation histories cut at every prefix by each teardown cause (expiry, Refresh 0, control-connection close/reset, relay read/write/accept error, listener write error, Server.Close), optionally during a slow lifecycle callback, UDP and TCP allocations; open relay sockets/listeners/peer connections = those of live allocations at every idle point, AllocationCount within the model's bounds, created/deleted callbacks balance, nothing (sockets, goroutines with pion/turn frames, held locks) remains 5 s after Server.Close", SRV),
 "C16": ("3.C16", "Connect to listening/refusing/vetoed peers, duplicate Connect, inbound peer connections with and without permission, ConnectionBind with right/wrong/foreign id, right/wrong user, twice, at 29 s/29.9 s/30.1 s/31 s, byte streams both ways under arbitrary segmentation and read sizes, closes/resets from either side; ids unique and backed by a real simnet connection from/at the relayed address, one bind per id by the owner within 30 s, unbound connections closed at +30 s, streams equal in content and order, 446 on duplicate Connect and no lock left held", SRV),
 "C18": ("3.C18", "server-world histories (incl. teardown and TCP-relay plans) with stalls at callbacks, logger calls, socket calls and every lock acquisition/release; no panic (worker death is attributed to the persisted plan), no acquisition still blocked and no lock held at idle points / at the end (simsync registry with acquisition sites); a second pass runs on a -race build", SRV + "; the race pass is limited by the happens-before edges the scheduler itself introduces (DESIGN.md section 6)"),
})
CHECKS.update({
 "C09": ("3.C09", "hostile bytes (random; bit flips, length rewrites, attribute-length overruns, truncation, extension of valid messages; every class/method pair, STUN lengths 0xFFEC-0xFFFF, ChannelData lengths 0xFFF8-0xFFFF, unknown comprehension-required attributes, 0-byte datagrams) delivered as datagrams to the UDP listener, under arbitrary segmentation to the TCP listener and to STUNConn, to relay sockets, to Client.HandleInbound and through Client.Listen, from strangers and from authenticated owners; no panic (worker death), no busy loop (yield budget per scheduler step), no wedge (real-time watchdog), documented handled/error classification, and a liveness probe (Binding + authenticated Refresh, or a client transaction) afterwards", "real server / client / STUNConn on simulated sockets, clock, scheduler"),
 "C17": ("3.C17", "credentials generated by both generators at one fake instant (sub-second phases, durations negative..days) and validated by the matching handler at instants up to, around and after the stamped second, with single-character mutations of username and password, a later timestamp with the old password, another secret; returned key compared with an independent MD5(user:realm:password); end to end a real client allocates through the real server with NewLongTermAuthHandler / LongTermTURNRESTAuthHandler before and after expiry and with forged pairs", "real lt_cred.go generators and handlers on the simulated clock; real client and server for the end-to-end share"),
 "C20": ("3.C20", "the three bundled generators over a simulated transport.Net with a scripted random source (0, n-1, a colliding value repeated, a walk over the range), (MinPort,MaxPort) pairs incl. (p,p), (1,65535), (65535,65535), (65534,65535), MaxRetries 1..20, ports occupied by others, injected bind failures, fill/drain histories, udp4/udp6/tcp4/tcp6, with and without a requested port; advertised IP/port = configured relay address / really bound port, inside the range, unshared among live objects, clean failure (no socket left open)", "real relay_address_generator_*.go over simnet's transport.Net; this property is at the edge of the family (configurations x random-source outputs); bind failures, socket accounting and histories are what the simulator adds"),
})
TECH = "deterministic simulation with fault injection (seeded plans, simulated network/clock/scheduler, reference-model oracle, ddmin-minimised replay files)"

checks = []
for pid, (ref, text, note) in sorted(CHECKS.items()):
    checks.append({
        "property_id": pid,
        "quick_cmd": "./verif %s quick" % pid,
        "thorough_cmd": "./verif %s thorough" % pid,
        "evidence_file": "evidence/%s.json" % pid,
        "replay_cmd_template": "./verif replay {path}",
        "engine": "sim",
        "level_claimed": {"category": "exploration", "text": "seeded search over plans (operation histories x virtual-time offsets x faults x schedules): " + text + ". A clean batch is evidence over the plans explored, not a proof.", "design_ref": "DESIGN.md " + ref},
        "level_note": note,
        "technique": TECH,
    })
NA = {"C11": "pure function of its input: no schedule, clock, fault or interleaving for a simulator to decide (DESIGN.md section 4)"}
na = []
for p in props:
    if p["id"] in CHECKS:
        continue
    na.append({"property_id": p["id"], "reason": NA.get(p["id"], "check under construction in this session (DESIGN.md section 3); not claimed until its check is registered")})
m = {
 "version": 1,
 "setup_cmd": "python3 orch/prep.py /tmp/verif-setup-warm >/dev/null 2>&1; rm -rf /tmp/verif-setup-warm; true",
 "hooks": {"guard": "verif", "enable": "no hook lives in /repo: every check copies /repo's working tree to a scratch directory, rewrites sync.(RW)Mutex to simsync there and adds /verif/overlay (DESIGN.md 2.11)",
           "baseline_off_cmd": "cd /repo && go test -mod=mod -json -vet=off -count=1 -timeout 25m ./...", "source_commits": [], "add_only": True},
 "engines": [{"name": "sim", "path": "sim/", "serves_properties": sorted(CHECKS), "kind_free_text": "deterministic simulator (Go, testing/synctest bubble, simnet, seeded plans) + python3 orchestrator ./verif"}],
 "checks": checks,
 "not_applicable": na,
 "notes": "fix: commits in /repo are listed in known_findings.json (fixed); replay files of reported violations go to replays/",
}
json.dump(m, open(os.path.join(VERIF, "MANIFEST.json"), "w"), indent=1)
print("checks:", len(checks), "not_applicable:", len(na))
