#!/usr/bin/env python3
"""Sensitivity driver: apply a patch to a scratch copy of /repo (never to /repo) and run checks on it.
usage: mutate.py <patch> <Cnn> [<Cnn> ...]   (env VERIF_BUDGET seconds per check, default 10)"""
import os, sys, subprocess, tempfile, shutil, json
VERIF = os.path.dirname(os.path.dirname(os.path.abspath(__file__)))
def main():
    patch = os.path.abspath(sys.argv[1]); props = sys.argv[2:]
    d = tempfile.mkdtemp(prefix="mutrepo-")
    try:
        subprocess.run(["rsync", "-a", "--exclude", ".git", "/repo/", d + "/"], check=True)
        r = subprocess.run(["patch", "-p1", "-s", "-d", d, "-i", patch], capture_output=True, text=True)
        if r.returncode != 0:
            print("PATCH FAILED", r.stdout, r.stderr); return 2
        env = dict(os.environ, VERIF_REPO=d, VERIF_BUDGET=os.environ.get("VERIF_BUDGET", "10"), VERIF_EVIDENCE_DIR=os.path.join(d, ".evidence"), VERIF_REPLAY_DIR=os.path.join("/tmp/mut-replays", os.path.basename(patch)))
        res = {}
        for p in props:
            r = subprocess.run([os.path.join(VERIF, "verif"), p, "quick"], capture_output=True, text=True, env=env)
            viol = [l for l in r.stdout.splitlines() if l.startswith("VIOLATION")]
            detail = [l.strip() for l in r.stderr.splitlines() if l.strip().startswith("class=")]
            res[p] = (r.returncode, detail[:3])
            print("%s %s exit=%d %s" % (os.path.basename(patch), p, r.returncode, " | ".join(detail[:3])), flush=True)
            if r.returncode == 2:
                print(r.stderr[-1500:])
        return 0
    finally:
        shutil.rmtree(d, ignore_errors=True)
sys.exit(main())
