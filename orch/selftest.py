"""Determinism self-test: every plan of a range is executed in several fresh processes with
different GOMAXPROCS and under different machine load; the canonical-log hashes, step counts,
virtual end times and violation signatures must be identical."""
import os, sys, json, subprocess, tempfile, shutil, time
import main as M

def run_range(sc, prop, seed, frm, to, procs, out):
    env = dict(os.environ, VERIF_PROCS=str(procs // 1000 if procs >= 1000 else procs), VERIF_PER_RUN="1")
    return subprocess.Popen([sc.bin, "-test.run", "TestWorker", "-test.timeout", "0", "-mode", "explore", "-prop", prop, "-seed", str(seed),
                             "-from", str(frm), "-to", str(to), "-samples", "0", "-out", out], env=env, stdout=subprocess.DEVNULL, stderr=subprocess.DEVNULL)

def digest(path):
    d = {}
    for l in open(path):
        if not l.startswith("{"):
            continue
        r = json.loads(l)
        d[r["run"]] = (r["sig"], r["steps"], r["virtual_ns"], sorted(json.dumps([v["property"], v["class"], v.get("key"), v.get("step"), v.get("t_ns")], sort_keys=True) for v in r.get("violations") or []))
    return d

def main(argv):
    if argv and argv[0] == "determinism":
        argv = argv[1:]
    props = argv or M.PROPS
    n = int(os.environ.get("VERIF_SELFTEST_RUNS", "120"))
    sc = M.Scratch()
    bad = 0
    try:
        if not sc.build():
            return 2
        for prop in props:
            outs = []
            procs = []
            # 6 processes per property and pass: each seed thrice, all running at once (load).
            # Workers always run with one P (as in the checks); VERIF_SELFTEST_PROCS=1,4,16 also
            # compares other GOMAXPROCS values (informational: goroutines that become runnable
            # in the same scheduler step then really run in parallel).
            gps = [int(x) for x in os.environ.get("VERIF_SELFTEST_PROCS", "1,1,1").split(",")]
            for seed in (1, 2):
                for gi, gp in enumerate(gps):
                    gp = gp * 1000 + gi
                    out = os.path.join(sc.dir, "st-%s-%d-%d.jsonl" % (prop, seed, gp))
                    outs.append((seed, gp, out))
                    if gi == 1:
                        # this process starts in the middle: a run must not depend on what the
                        # process has executed before it (the second half is run by another one)
                        procs.append(run_range(sc, prop, seed, n // 2, n, gp, out))
                        procs.append(run_range(sc, prop, seed, 0, n // 2, gp, out + ".b"))
                    else:
                        procs.append(run_range(sc, prop, seed, 0, n, gp, out))
            for p in procs:
                p.wait()
            for (s_, gp_, o_) in outs:
                if os.path.exists(o_ + ".b"):
                    with open(o_, "a") as f:
                        f.write(open(o_ + ".b").read())
            # a plan is a pure function of (property, tier, seed, index): generated twice, in two processes
            gens = []
            for k in range(2):
                g = subprocess.run([sc.bin, "-test.run", "TestWorker", "-mode", "gen", "-prop", prop, "-seed", "1", "-from", "0", "-to", str(n)], capture_output=True, text=True)
                gens.append([l for l in g.stdout.splitlines() if l.startswith("{")])
            if gens[0] != gens[1] or not gens[0]:
                bad += 1
                d = [i for i, (x, y) in enumerate(zip(gens[0], gens[1])) if x != y]
                print("NONDETERMINISTIC %s: plan generation differs between two processes, first at index %s" % (prop, d[:3]))
            for seed in (1, 2):
                ds = [(gp, digest(o)) for (s, gp, o) in outs if s == seed]
                base = ds[0][1]
                for gp, d in ds[1:]:
                    diff = [r for r in base if base[r] != d.get(r)]
                    if len(d) != len(base) or diff:
                        bad += 1
                        print("NONDETERMINISTIC %s seed=%d GOMAXPROCS=%d vs 1: %d of %d runs differ, e.g. run %s" % (prop, seed, gp, len(diff), len(base), diff[:5]))
                        for r in diff[:2]:
                            print("   ", base[r], "\n   ", d.get(r))
            print("%s: %d plans x 2 seeds x 3 processes compared" % (prop, n), flush=True)
        print("determinism selftest:", "FAILED" if bad else "identical")
        return 1 if bad else 0
    finally:
        sc.cleanup()
