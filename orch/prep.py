#!/usr/bin/env python3
"""Prepare a scratch copy of /repo (simsync rewrite + overlay) and build the simulator."""
import os, re, shutil, subprocess, sys, tempfile, json, hashlib

VERIF = os.path.dirname(os.path.dirname(os.path.abspath(__file__)))
REPO = os.environ.get("VERIF_REPO", "/repo")
GO = os.environ.get("VERIF_GO", "go1.26.8")

def goenv():
    e = dict(os.environ)
    e.update({"GOFLAGS": "-mod=mod", "GOPROXY": "off", "GOSUMDB": "off", "GOTOOLCHAIN": "local",
              "CGO_ENABLED": e.get("CGO_ENABLED", "1")})
    return e

def rewrite_sync(root):
    """sync.Mutex / sync.RWMutex -> simsync.* in non-test library files. Returns #declarations."""
    n = 0
    files = []
    for d, dirs, fs in os.walk(root):
        dirs[:] = [x for x in dirs if x not in ("examples", ".git", "simsync", "e2e")]
        for f in fs:
            if f.endswith(".go") and not f.endswith("_test.go"):
                files.append(os.path.join(d, f))
    for p in sorted(files):
        s = open(p).read()
        c = len(re.findall(r"\bsync\.(?:RW)?Mutex\b", s))
        if c == 0:
            continue
        n += c
        s = re.sub(r"\bsync\.RWMutex\b", "simsync.RWMutex", s)
        s = re.sub(r"\bsync\.Mutex\b", "simsync.Mutex", s)
        still = re.search(r"\bsync\.[A-Z]", s) is not None
        imp = '\t"github.com/pion/turn/v5/internal/simsync"\n'
        if still:
            s = s.replace('\t"sync"\n', '\t"sync"\n' + imp, 1)
        else:
            s = s.replace('\t"sync"\n', imp, 1)
        open(p, "w").write(s)
    return n

def rewrite_afterfunc(root):
    """time.AfterFunc -> simsync.AfterFunc (same timer; the callback first tells the scheduler in
    which order the timers were created, so that timers firing at one instant are ordered by that
    and not by the runtime's timer heap). Returns #call sites."""
    n = 0
    for d, dirs, fs in os.walk(root):
        dirs[:] = [x for x in dirs if x not in ("examples", ".git", "simsync", "e2e")]
        for f in fs:
            if not f.endswith(".go") or f.endswith("_test.go"):
                continue
            p = os.path.join(d, f)
            s = open(p).read()
            c = s.count("time.AfterFunc(")
            if c == 0:
                continue
            n += c
            s = s.replace("time.AfterFunc(", "simsync.AfterFunc(")
            if "internal/simsync" not in s:
                s = s.replace('import (\n', 'import (\n\t"github.com/pion/turn/v5/internal/simsync"\n', 1)
            open(p, "w").write(s)
    return n

MAP_EXPRS = ["s.conns", "m.allocations", "a.permissions", "a.tcpConnections", "allocation.tcpConnections", "m.permMap", "mgr.chanMap", "m.trMap"]

def rewrite_map_loops(root):
    """`for ... := range <known map>` -> deterministic order via simsync.Keys/Values. Returns #loops."""
    n = 0
    for d, dirs, fs in os.walk(root):
        dirs[:] = [x for x in dirs if x not in ("examples", ".git", "simsync", "e2e")]
        for f in fs:
            if not f.endswith(".go") or f.endswith("_test.go"):
                continue
            p = os.path.join(d, f)
            s = open(p).read()
            if "internal/simsync" not in s:
                continue
            o = s
            for e in MAP_EXPRS:
                ee = re.escape(e)
                s, c1 = re.subn(r"for _, (\w+) := range " + ee + r" \{", r"for _, \1 := range simsync.Values(" + e + ") {", s)
                s, c2 = re.subn(r"for (\w+), (\w+) := range " + ee + r" \{", r"for _, \1 := range simsync.Keys(" + e + r") {\n\2 := " + e + r"[\1]", s)
                s, c3 = re.subn(r"for (\w+) := range " + ee + r" \{", r"for _, \1 := range simsync.Keys(" + e + ") {", s)
                n += c1 + c2 + c3
            if s != o:
                open(p, "w").write(s)
    return n

def prepare(scratch, race=False, log=None):
    """Copy /repo working tree into scratch/repo, rewrite, overlay, write sim module. Returns info dict."""
    repo = os.path.join(scratch, "repo")
    subprocess.run(["rsync", "-a", "--exclude", ".git", "--exclude", "examples", REPO + "/", repo + "/"], check=True)
    nrew = rewrite_sync(repo)
    nmap = rewrite_map_loops(repo)
    naf = rewrite_afterfunc(repo)
    # overlay
    ov = os.path.join(VERIF, "overlay")
    subprocess.run(["rsync", "-a", ov + "/", repo + "/"], check=True)
    # The table of live TCP relay listeners is one per process (fix 4318e8e) and a worker process
    # executes thousands of runs: a run that ends with a listener still open (a violating run, a
    # run cut at the step cap) must not change what the runs after it see. Reset before each run;
    # a no-op for trees that do not have the table (revert patches, seeded changes).
    rl = os.path.join(repo, "relay_listener_ports.go")
    has = os.path.exists(rl) and "var liveRelayListeners " in open(rl).read()
    body = "liveRelayListeners.ports = nil" if has else ""
    open(os.path.join(repo, "zz_verif_reset.go"), "w").write(
        "package turn\n\n// VerifResetRelayListeners: see orch/prep.py (scratch copy only).\nfunc VerifResetRelayListeners() { %s }\n" % body)
    sim = os.path.join(scratch, "sim")
    simsrc = os.environ.get("VERIF_SIMDIR", os.path.join(VERIF, "sim"))
    subprocess.run(["rsync", "-a", "--exclude", "go.mod", "--exclude", "go.sum", simsrc + "/", sim + "/"], check=True)
    # go.mod for the harness: same requirements as the repo (+ porcupine)
    req = []
    gm = open(os.path.join(REPO, "go.mod")).read()
    for m in re.finditer(r"^\s+(\S+) (v\S+)", gm, re.M):
        req.append((m.group(1), m.group(2)))
    lines = ["module github.com/pion/turn/v5/verifsim", "", "go 1.24.0", "", "require ("]
    lines.append("\tgithub.com/pion/turn/v5 v5.0.0")
    lines.append("\tgithub.com/anishathalye/porcupine v1.3.0")
    for mod, ver in req:
        lines.append("\t%s %s" % (mod, ver))
    lines += [")", "", "replace github.com/pion/turn/v5 => ../repo", ""]
    open(os.path.join(sim, "go.mod"), "w").write("\n".join(lines))
    shutil.copy(os.path.join(REPO, "go.sum"), os.path.join(sim, "go.sum"))
    extra = os.path.join(VERIF, "orch", "extra.go.sum")
    if os.path.exists(extra):
        with open(os.path.join(sim, "go.sum"), "a") as f:
            f.write(open(extra).read())
    return {"rewritten_mutex_decls": nrew, "rewritten_map_loops": nmap, "rewritten_afterfunc": naf, "repo": repo, "sim": sim}

def build(scratch, race=False):
    sim = os.path.join(scratch, "sim")
    out = os.path.join(scratch, "sim.race.test" if race else "sim.test")
    cmd = [GO, "test", "-c", "-trimpath", "-o", out]
    if race:
        cmd.append("-race")
    cmd.append(".")
    r = subprocess.run(cmd, cwd=sim, env=goenv(), capture_output=True, text=True)
    if r.returncode != 0:
        sys.stderr.write(r.stdout + r.stderr)
        return None
    return out

if __name__ == "__main__":
    d = sys.argv[1] if len(sys.argv) > 1 else tempfile.mkdtemp(prefix="verif-")
    os.makedirs(d, exist_ok=True)
    info = prepare(d)
    print(json.dumps(info))
    b = build(d, race="--race" in sys.argv)
    print(b)
    sys.exit(0 if b else 2)
