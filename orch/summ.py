#!/usr/bin/env python3
import sys, json, collections
viol = collections.Counter(); ex = {}
n=0; reasons=collections.Counter(); probes=collections.Counter(); faults=collections.Counter()
vt=0; wall=0
for path in sys.argv[1:]:
    for l in open(path):
        l=l.strip()
        if not l.startswith('{'): continue
        r=json.loads(l)
        if r.get('agg'):
            n+=r['runs']; vt+=r['virtual_ns']; wall+=r['wall_us']
            for k,v in r['reasons'].items(): reasons[k]+=v
            for k,v in (r.get('probes') or {}).items(): probes[k]+=v
            for k,v in (r.get('faults') or {}).items(): faults[k]+=v
            continue
        n+=1; reasons[r['reason']]+=1; vt+=r['virtual_ns']; wall+=r['wall_us']
        for k,v in (r.get('probes') or {}).items(): probes[k]+=v
        for k,v in (r.get('faults') or {}).items(): faults[k]+=v
        for v in r.get('violations') or []:
            key=(v['property'],v['class'],json.dumps(v.get('key'),sort_keys=True))
            viol[key]+=1
            ex.setdefault(key,(r['run'],v.get('detail','')[:300]))
print("runs",n,"reasons",dict(reasons),"virtual_h",round(vt/3.6e12,1),"wall_s",round(wall/1e6,2))
print("probes",dict(probes)); print("faults",dict(faults))
for k,c in sorted(viol.items()):
    print(c,k,ex[k])
