#!/bin/bash
# usage: seedcheck.sh <seed-dir-with patch.diff demo_test.go> <name> <Cnn> [<Cnn>...]
# Confirms a seeded change in a scratch worktree (compiles, existing tests pass, demo fails with / passes without),
# then runs the given quick checks against it. Prints a JSON summary line.
set -u
export GOFLAGS=-mod=mod GOPROXY=off GOSUMDB=off GOTOOLCHAIN=local
SRC=$1; NAME=$2; shift 2
WT=/tmp/sv-$NAME
git -C /repo worktree remove --force $WT >/dev/null 2>&1; rm -rf $WT
git -C /repo worktree add -f --detach $WT HEAD -q || exit 2
cp $SRC/demo_test.go $WT/zz_seed_demo_test.go
DEMO=$(grep -o 'func Test[A-Za-z0-9_]*' $WT/zz_seed_demo_test.go | head -1 | sed 's/func //')
run() { (cd $WT && unshare -rn sh -c "ip link set lo up 2>/dev/null; $1") ; }
run "go1.26.8 test -count=1 -run '^$DEMO\$' . " > $WT/demo_without.log 2>&1; W=$?
(cd $WT && git apply $SRC/patch.diff) || { echo "{\"name\":\"$NAME\",\"error\":\"patch does not apply\"}"; exit 2; }
(cd $WT && go1.26.8 build ./...) > $WT/build.log 2>&1; B=$?
run "go1.26.8 test -count=1 -run '^$DEMO\$' . " > $WT/demo_with.log 2>&1; D=$?
mv $WT/zz_seed_demo_test.go /tmp/zz_$NAME.go
run "go1.26.8 test -count=1 ./internal/... ./e2e/ && go1.26.8 test -count=1 -skip TestClientWithSTUN ." > $WT/suite.log 2>&1; S=$?
echo "{\"name\":\"$NAME\",\"demo\":\"$DEMO\",\"demo_without_exit\":$W,\"build_exit\":$B,\"demo_with_exit\":$D,\"suite_with_exit\":$S}"
tail -3 $WT/suite.log | sed 's/^/   suite: /'
for P in "$@"; do VERIF_BUDGET=${VERIF_BUDGET:-12} python3 /verif/orch/mutate.py $SRC/patch.diff $P 2>&1 | tail -2; done
git -C /repo worktree remove --force $WT >/dev/null 2>&1; rm -rf $WT /tmp/zz_$NAME.go
