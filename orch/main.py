import os, sys, json, time, shutil, subprocess, tempfile, collections, copy, hashlib
import prep

VERIF = prep.VERIF
NCPU = int(os.environ.get("VERIF_WORKERS", str(os.cpu_count() or 4)))

# wall-clock exploration budgets (seconds) per tier; build time comes on top
BUDGET = {"quick": 25, "thorough": 600}
PROP_BUDGET = {}  # property -> {tier: seconds}

PROPS = ["C01", "C02", "C03", "C04", "C05", "C06", "C07", "C08", "C09", "C10", "C12", "C13", "C14",
         "C15", "C16", "C17", "C18", "C19", "C20"]

COMMON_STUB = ["clock and timers (testing/synctest fake clock)", "crypto/rand (testing/cryptotest, seeded)", "logger (recording, yield point)",
               "sync.Mutex/RWMutex in pion/turn (simsync: channel-based, same semantics, every acquire/release is a scheduler yield)",
               "network (simnet UDP/TCP: latency, drop, duplicate, delay, reorder, segmentation, injected I/O errors)"]
SRV_REAL = ["internal/allocation (manager, allocation, permission, channel bind, five-tuple)", "internal/proto (codecs)", "internal/ipnet", "pion/stun"]
SRV_STUB = ["TURN clients (scripted raw STUN/ChannelData endpoints)", "peers (scripted endpoints)", "relay address generator (simnet-backed RelayAddressGenerator)",
            "auth / permission / quota / event handlers (recording callbacks, yield points)"]
# world tag (sim/worker_test.go worldTag) -> (real components, stubbed components)
COMPONENTS = {
    "srv": (["turn.Server (server.go: read loops, accept loop, Close)", "internal/server (request handlers, nonce manager)"] + SRV_REAL, SRV_STUB),
    "srv-handlers": (["internal/server (request handlers driven datagram by datagram; nonce manager chosen by the plan)"] + SRV_REAL,
                     SRV_STUB + ["turn.Server read loop (replaced by one long-lived handler loop over the simnet socket)"]),
    "+tcp": (["turn.Server TCP listener path, proto.STUNConn stream framing, RFC 6062 Connect/ConnectionBind/ConnectionAttempt, io.Copy relay pipes"], []),
    "+realclient": (["turn.Client (client.go)", "internal/client (UDPConn, transactions, bindings, permissions, periodic timers; in the e2e-tcprelay plans TCPAllocation Dial/Accept/BindConnection and TCPConn)"],
                    ["scripted clients are replaced by the real client for this run"]),
    "+free": (["Go race detector over free-running goroutines (no driver steps)"], ["scheduler decisions (not controlled in this pass; results are race reports only)"]),
    "cli": (["turn.Client (client.go: Listen loop, PerformTransaction, handlers)", "internal/client (transaction map, UDPConn, TCPAllocation, bindings, permissions, timers)",
             "internal/proto", "pion/stun"], ["TURN server (scripted: per-method reactions chosen by the plan)", "peers (none: relayed data is injected by the scripted server)"]),
    "frame": (["internal/proto STUNConn (stream framing)", "internal/client TCPAllocation.BindConnection / TCPConn read path", "pion/stun"],
              ["byte stream source (scripted segmentation, short reads, cuts)", "TURN client behind BindConnection (no-op fake)"]),
    "xl": (["turn.Server with several listeners (UDP and TCP on one address, optionally a second UDP port): server.go NewServer / readLoop / readListener, "
            "internal/server, internal/allocation (one manager per listener)", "internal/proto", "pion/stun"],
           ["TURN clients (scripted, sharing their ip:port across listeners)", "peers (scripted)", "relay address generator (simnet-backed, one per listener, distinct relay IPs)",
            "reference model (allocated / relay / permitted IPs per endpoint) instead of the full monitor"]),
    "tls": (["turn.Server behind crypto/tls (server.go readListener: handshake with a 10 s limit, connection tracking, Close), internal/server Binding path", "crypto/tls (real, both ends)"],
            ["TLS clients (scripted: real handshake + Binding, or plaintext / hostile / silent)", "relay address generator (simnet-backed)"]),
    "gen": (["RelayAddressGeneratorStatic / PortRange / None (relay_address_generator_*.go)"], ["vnet/transport.Net (SimTransport over simnet)"]),
    "cred": (["lt_cred.go (GenerateLongTermCredentials, GenerateLongTermTURNRESTCredentials, LongTermTURNRESTAuthHandler, NewLongTermAuthHandler)",
              "internal/server authentication path, turn.Client (long-lived handler runs)"], SRV_STUB[:1]),
}


def components(world_counts):
    real, stub, seen = [], list(COMMON_STUB), {}
    for tag, n in sorted(world_counts.items()):
        parts = tag.split("+")
        keys = [parts[0]] + ["+" + x for x in parts[1:]]
        for k in keys:
            r, st = COMPONENTS.get(k, ([], []))
            for x in r:
                if x not in real:
                    real.append(x)
            for x in st:
                if x not in stub:
                    stub.append(x)
    return real, stub


def log(*a):
    print(*a, file=sys.stderr, flush=True)


def code_rev():
    try:
        h = subprocess.run(["git", "-C", prep.REPO, "rev-parse", "--short", "HEAD"], capture_output=True, text=True).stdout.strip()
        d = subprocess.run(["git", "-C", prep.REPO, "status", "--porcelain"], capture_output=True, text=True).stdout.strip()
        return h + ("+dirty" if d else "")
    except Exception:
        return "unknown"


def load_known():
    p = os.path.join(VERIF, "known_findings.json")
    if not os.path.exists(p):
        return []
    return [f for f in json.load(open(p)).get("findings", []) if f.get("status", "open") == "open"]


def match_known(v, known):
    for f in known:
        if f["property"] != v["property"] or f["class"] != v["class"]:
            continue
        k = v.get("key") or {}
        if all(k.get(a) == b for a, b in (f.get("key") or {}).items()):
            return f
    return None


class Scratch:
    def __init__(self, race=False):
        base = os.environ.get("VERIF_TMP", tempfile.gettempdir())
        self.dir = tempfile.mkdtemp(prefix="verif-", dir=base)
        self.race = race
        self.bin = None
        self.info = None

    def build(self):
        t = time.time()
        self.info = prep.prepare(self.dir)
        self.bin = prep.build(self.dir, race=self.race)
        self.build_s = time.time() - t
        return self.bin is not None

    def cleanup(self):
        shutil.rmtree(self.dir, ignore_errors=True)


def run_plan(sc, plan, keep_log=False, timeout=300, extra_env=None, binary=None):
    """Execute one plan in a fresh process. Returns (record or None, exitcode, stderr)."""
    d = tempfile.mkdtemp(prefix="run-", dir=sc.dir)
    pf = os.path.join(d, "plan.json")
    of = os.path.join(d, "out.json")
    json.dump(plan, open(pf, "w"))
    cmd = [binary or sc.bin, "-test.run", "TestWorker", "-test.timeout", "0", "-mode", "run", "-plan", pf, "-out", of]
    if keep_log:
        cmd.append("-log")
    env = worker_env()
    env.update(extra_env or {})
    try:
        r = subprocess.run(cmd, capture_output=True, text=True, timeout=timeout, env=env)
        code, err = r.returncode, r.stderr + r.stdout
    except subprocess.TimeoutExpired:
        code, err = 124, "timeout"
    rec = None
    if os.path.exists(of):
        try:
            rec = json.loads(open(of).read().strip().splitlines()[-1])
        except Exception:
            rec = None
    if rec is None and code not in (0,):
        rec = crash_record(plan, code, err)
    shutil.rmtree(d, ignore_errors=True)
    return rec, code, err


def worker_env():
    e = dict(os.environ)
    e["GOMAXPROCS"] = e.get("VERIF_GOMAXPROCS", "1")
    e["GORACE"] = "halt_on_error=1 exitcode=66"
    return e


def crash_record(plan, code, err):
    """A worker process died while running `plan`: classify from its output."""
    prop, cls, where = "C09", "panic", "unknown"
    txt = err or ""
    if "WARNING: DATA RACE" in txt:
        prop, cls = "C18", "data-race"
        where = race_where(txt)
        if where == "unknown":
            # both stacks are wholly inside the harness or a dependency: harness trouble, not a verdict
            return {"run": plan.get("run", -1), "reason": "harness", "harness": "race report without pion/turn frames:\n" + txt[-3000:], "violations": [], "steps": 0, "virtual_ns": 0, "sig": "", "states": 0, "requests": 0, "wall_us": 0}
    elif "FATAL-RECORD " in txt:
        line = [l for l in txt.splitlines() if l.startswith("FATAL-RECORD ")][-1]
        return json.loads(line[len("FATAL-RECORD "):])
    elif "WATCHDOG" in txt:
        cls = "wedge"
        where = panic_where(txt)
    elif "HARNESS:" in txt:
        return {"run": plan.get("run", -1), "reason": "harness", "harness": txt[-2000:], "violations": [], "steps": 0, "virtual_ns": 0, "sig": "", "states": 0, "requests": 0, "wall_us": 0}
    elif "panic:" in txt or "fatal error:" in txt:
        where = panic_where(txt)
    else:
        # (no panic, no fatal error, no race report: a death by signal. Head and tail of the output are kept:
        # the first lines name the signal, the last the goroutines)
        return {"run": plan.get("run", -1), "reason": "harness", "signal_death": True,
                "harness": "exit %s: %s\n...\n%s" % (code, txt[:700], txt[-1500:]), "violations": [], "steps": 0, "virtual_ns": 0, "sig": "", "states": 0, "requests": 0, "wall_us": 0}
    v = {"property": prop, "class": cls, "key": {"where": where}, "step": -1, "t_ns": -1, "detail": txt[-3000:]}
    vs = [v]
    if cls == "panic":
        vs.append(dict(v, property="C18"))
    if cls == "data-race" and "lt_cred.go" in txt:
        # a race inside the time-windowed credential handlers: the key they return is then not
        # the key of (user, realm, password) - an authentic credential is refused, or worse
        vs.append(dict(v, property="C17"))
    if cls in ("panic", "wedge") and plan.get("property") not in ("C09", "C18", None):
        # the run of that property's own plan did not complete: its own check fails too
        vs.append(dict(v, property=plan["property"]))
    return {"run": plan.get("run", -1), "reason": "crash", "violations": vs, "steps": 0, "virtual_ns": 0, "sig": "crash", "states": 0, "requests": 0, "wall_us": 0}


def panic_where(txt):
    """First pion/turn frame of the panicking goroutine (function name only: stable)."""
    lines = txt.splitlines()
    start = 0
    for i, l in enumerate(lines):
        if l.startswith("panic:") or l.startswith("fatal error:") or l.startswith("WATCHDOG"):
            start = i
            break
    for l in lines[start:]:
        l = l.strip()
        if l.startswith("github.com/pion/turn/v5") and "verifsim" not in l and "simsync" not in l:
            return l[:l.rfind("(")].replace("github.com/pion/turn/v5", "turn")
    return "unknown"


def race_where(txt):
    """The two pion/turn functions of a race report (first turn frame of each stack)."""
    fr = []
    stack_first = True
    for l in txt.splitlines():
        t = l.strip()
        if t.startswith(("Write at", "Read at", "Previous write", "Previous read", "Atomic", "Previous atomic")):
            stack_first = True
            continue
        if t.startswith("Goroutine ") or t.startswith("=================="):
            stack_first = False
            continue
        if stack_first and t.startswith("github.com/pion/turn/v5") and t.endswith(")") and "verifsim" not in t and "simsync" not in t:
            name = t[:t.rfind("(")].replace("github.com/pion/turn/v5", "turn")
            fr.append(name)
            stack_first = False
    fr = sorted(set(fr))
    return "|".join(fr) or "unknown"


def explore(sc, prop, tier, seed, budget, workers, extra_env=None):
    """Fan plans out to single-P worker processes. Returns list of records."""
    wd = tempfile.mkdtemp(prefix="explore-", dir=sc.dir)
    procs = []
    t_end = time.time() + budget
    recs = []

    def start(i, frm):
        out = os.path.join(wd, "w%d-%d.jsonl" % (i, frm))
        cur = os.path.join(wd, "w%d.cur" % i)
        left = max(1, int(t_end - time.time()))
        cmd = [sc.bin, "-test.run", "TestWorker", "-test.timeout", "0", "-mode", "explore", "-prop", prop, "-tier", tier, "-seed", str(seed),
               "-from", str(frm), "-stride", str(workers), "-budget", "%ds" % left, "-out", out, "-cur", cur]
        errf = open(os.path.join(wd, "w%d-%d.err" % (i, frm)), "w")
        env = worker_env()
        env.update(extra_env or {})
        p = subprocess.Popen(cmd, stdout=errf, stderr=errf, env=env)
        return {"i": i, "from": frm, "p": p, "out": out, "cur": cur, "err": errf.name}

    for i in range(workers):
        procs.append(start(i, i))
    harness = []
    while procs:
        time.sleep(0.2)
        for w in list(procs):
            rc = w["p"].poll()
            if rc is None:
                if time.time() > t_end + 120:
                    w["p"].kill()
                continue
            procs.remove(w)
            last_run = None
            if os.path.exists(w["out"]):
                for l in open(w["out"]):
                    l = l.strip()
                    if l.startswith("{"):
                        try:
                            r = json.loads(l)
                        except Exception:
                            continue
                        recs.append(r)
                        if not r.get("agg"):
                            last_run = r["run"]
            if rc != 0:
                err = open(w["err"]).read()
                plan = None
                if os.path.exists(w["cur"]):
                    try:
                        # the worker keeps the index of the plan in progress; the plan is a pure function of it
                        idx = int(json.loads(open(w["cur"]).readline())["run"])
                        g = subprocess.run([sc.bin, "-test.run", "TestWorker", "-mode", "gen", "-prop", prop, "-tier", tier, "-seed", str(seed), "-from", str(idx)],
                                           capture_output=True, text=True, env=worker_env(), timeout=120)
                        plan = json.loads([l for l in g.stdout.splitlines() if l.startswith("{")][0])
                    except Exception:
                        plan = None
                if plan is None:
                    harness.append("worker %d exit %d without a current plan: %s" % (w["i"], rc, err[-1500:]))
                    continue
                if last_run == plan["run"]:
                    pass  # record already written (spin path writes before exiting)
                else:
                    rec = crash_record(plan, rc, err)
                    rec["plan"] = plan
                    if rec["reason"] == "harness" and rec.get("signal_death"):
                        # A worker that dies of a signal with neither a Go panic nor a race report (seen once:
                        # a -race worker, thorough tier) says nothing about the plan it was running unless
                        # the plan does it again: run that plan alone in a fresh process. If it completes,
                        # its record counts and the death is logged as a tool incident; if it dies again,
                        # that is harness trouble (exit 2).
                        rec2, code2, err2 = run_plan(sc, plan, extra_env=extra_env, timeout=600)
                        if rec2 is not None and code2 == 0:
                            log("worker %d died of a signal while running plan %s; the plan alone completes (tool incident, not a verdict): %s" % (w["i"], plan.get("run"), rec["harness"][:400].replace("\n", " | ")))
                            rec2["plan"] = plan
                            recs.append(rec2)
                        else:
                            harness.append(rec["harness"] + "\n(again when run alone: exit %s)" % code2)
                    elif rec["reason"] == "harness":
                        harness.append(rec["harness"])
                    else:
                        recs.append(rec)
                # carry on after the crashing plan
                if time.time() < t_end - 2:
                    procs.append(start(w["i"], plan["run"] + workers))
    return recs, harness


def has_class(rec, prop, cls):
    for v in (rec or {}).get("violations") or []:
        if v["property"] == prop and v["class"] == cls:
            return v
    return None


def drop_items(field, items, i, j):
    """items without [i:j]; for ops the removed gaps are added to the next op so that the
    remaining operations keep their instants."""
    cand = copy.deepcopy(items[:i] + items[j:])
    if field == "ops" and i < len(cand):
        carry = sum(((o.get("at") or {}).get("gap_ns") or 0) for o in items[i:j] if not (o.get("at") or {}).get("ref"))
        at = cand[i].setdefault("at", {})
        if carry and not at.get("ref"):
            at["gap_ns"] = (at.get("gap_ns") or 0) + carry
    return cand


def ddmin(sc, plan, prop, cls, max_runs=250):
    """Delta-debug the plan's list fields while the same oracle class keeps firing."""
    runs = [0]

    def fails(p):
        if runs[0] >= max_runs:
            return False
        runs[0] += 1
        rec, code, err = run_plan(sc, p)
        return has_class(rec, prop, cls) is not None

    cur = copy.deepcopy(plan)
    for field in ("ops", "stalls", "net_faults", "io_faults", "stream", "reactions"):
        items = cur.get(field) or []
        if not items:
            continue
        n = 2
        while len(items) >= 1 and runs[0] < max_runs:
            chunk = max(1, len(items) // n)
            reduced = False
            for i in range(0, len(items), chunk):
                cand = drop_items(field, items, i, i + chunk)
                p2 = copy.deepcopy(cur)
                p2[field] = cand
                if fails(p2):
                    items = cand
                    cur = p2
                    n = max(n - 1, 2)
                    reduced = True
                    break
            if not reduced:
                if chunk == 1:
                    break
                n = min(len(items), n * 2)
        cur[field] = items
    # drop unused clients / peers
    for field in ("clients", "peers"):
        for it in list(cur.get(field) or []):
            p2 = copy.deepcopy(cur)
            p2[field] = [x for x in p2[field] if x["id"] != it["id"]]
            if fails(p2):
                cur = p2
    return cur, runs[0]


def triage(sc, prop, recs, known, replay_dir, max_new=3):
    """Returns (known_hits {id: count}, new [(violation, replay_path)], harness_msgs)."""
    by_sig = collections.OrderedDict()
    for r in recs:
        for v in r.get("violations") or []:
            if v["property"] != prop:
                continue
            sig = json.dumps([v["class"], v.get("key")], sort_keys=True)
            by_sig.setdefault(sig, []).append((r, v))
    known_hits = collections.Counter()
    new = []
    harness = []
    for sig, items in by_sig.items():
        v0 = items[0][1]
        f = match_known(v0, known)
        if f:
            known_hits[f["id"]] += len(items)
            continue
        if len(new) >= max_new or any(v0["class"] == n[0]["class"] for n in new):
            continue
        # choose the smallest plan that showed it
        items.sort(key=lambda it: len((it[0].get("plan") or {}).get("ops") or []) or 10 ** 6)
        r, v = items[0]
        plan = r.get("plan")
        if not plan:
            harness.append("violation %s without plan" % sig)
            continue
        if v["class"] == "data-race":
            # found by the race detector in free-running mode: the report itself is the evidence;
            # the replay file re-runs the plan on a -race build (the interleaving is not pinned)
            small = copy.deepcopy(plan)
            small["mode"] = "free-race"
            small["expect"] = {"property": prop, "class": v["class"], "key": v.get("key"), "step": -1, "t_ns": -1, "detail": v.get("detail", "")[-3000:]}
            small["code_rev"] = code_rev()
            os.makedirs(replay_dir, exist_ok=True)
            path = os.path.join(replay_dir, "%s-%s-%s-%s.json" % (prop, small.get("seed"), small.get("run"), v["class"]))
            json.dump(small, open(path, "w"), indent=1)
            new.append((v, path, 0))
            continue
        rec2, code, err = run_plan(sc, plan)
        v2 = has_class(rec2, prop, v["class"])
        if not v2:
            harness.append("violation %s/%s of run %s did not replay (exit %s): %s" % (prop, v["class"], r.get("run"), code, (err or "")[-800:]))
            continue
        small, nruns = ddmin(sc, plan, prop, v["class"])
        rec3, code, err = run_plan(sc, small, keep_log=True)
        v3 = has_class(rec3, prop, v["class"])
        if not v3:
            small, rec3, v3 = plan, rec2, v2
        small["expect"] = {"property": prop, "class": v3["class"], "key": v3.get("key"), "step": v3.get("step"), "t_ns": v3.get("t_ns"), "detail": v3.get("detail", "")[:2000]}
        small["code_rev"] = code_rev()
        os.makedirs(replay_dir, exist_ok=True)
        name = "%s-%s-%s-%s.json" % (prop, small.get("seed"), small.get("run"), v3["class"])
        path = os.path.join(replay_dir, name)
        json.dump(small, open(path, "w"), indent=1)
        new.append((v3, path, nruns))
    return known_hits, new, harness


def add(dst, src):
    for k, v in (src or {}).items():
        dst[k] = dst.get(k, 0) + v


def evidence(prop, tier, seed, recs, wall, sc, known_hits, new, extra):
    aggs = [r for r in recs if r.get("agg")]
    runs = [r for r in recs if not r.get("agg") and r.get("reason") not in ("harness",)]
    faults, yields, parks, probes, ops, locks = {}, {}, {}, {}, {}, {}
    sigs, nontriv, flavors, worlds = set(), set(), collections.Counter(), collections.Counter()
    states = 0
    vt = 0
    vmax = 0
    steps = 0
    nagg = 0
    for a in aggs:
        # runs a worker summed up (nothing to report individually)
        nagg += a["runs"]
        add(faults, a.get("faults")); add(yields, a.get("yields")); add(parks, a.get("parks")); add(probes, a.get("probes")); add(ops, a.get("ops")); add(locks, a.get("lock_sites"))
        sigs.update(a.get("sigs_nontrivial") or []); sigs.update(a.get("sigs_trivial") or [])
        nontriv.update(a.get("sigs_nontrivial") or [])
        for k, v in (a.get("flavors") or {}).items():
            flavors[k] += v
        for k, v in (a.get("worlds") or {}).items():
            worlds[k or "srv"] += v
        states += a.get("states", 0)
        vt += a.get("virtual_ns", 0)
        vmax = max(vmax, a.get("virtual_max", 0))
        steps += a.get("steps", 0)
    for r in runs:
        add(faults, r.get("faults")); add(yields, r.get("yields")); add(parks, r.get("parks")); add(probes, r.get("probes")); add(ops, r.get("ops")); add(locks, r.get("lock_sites"))
        sigs.add(r.get("sig"))
        if is_nontrivial(r):
            nontriv.add(r.get("sig"))
        flavors[r.get("flavor", "")] += 1
        worlds[r.get("world", "srv")] += 1
        states += r.get("states", 0)
        vt += r.get("virtual_ns", 0)
        vmax = max(vmax, r.get("virtual_ns", 0))
        steps += r.get("steps", 0)
    samples = [r["plan"] for r in runs if r.get("plan") and not r.get("violations")][:3]
    if not samples:
        samples = [r["plan"] for r in runs if r.get("plan")][:1]
    cov = {
        "evaluations": len(runs) + nagg,
        "distinct_nontrivial": len(nontriv),
        "rule": extra.get("rule", "plans are generated by a splitmix64 stream from (VERIF_SEED, property, run index); a run is non-trivial when the system under test completed "
                "at least 3 request/response exchanges or relayed data and the scheduler executed at least 10 events; distinct = distinct hash of the canonical event log "
                "(scheduler decisions, deliveries, responses, callbacks with virtual times)"),
        "samples": samples,
        "runs": len(runs) + nagg,
        "runs_per_hour": int((len(runs) + nagg) / max(wall, 1e-3) * 3600),
        "seeds": [seed],
        "virtual_seconds_total": round(vt / 1e9, 1),
        "virtual_seconds_max": round(vmax / 1e9, 1),
        "steps_total": steps,
        "ops_by_kind": ops,
        "faults_fired": faults,
        "yields_visited": yields,
        "parks_by_class": parks,
        "probes": probes,
        "distinct_interleavings": len(sigs),
        "distinct_states_sum": states,
        "flavors": dict(flavors),
        "lock_sites_visited": len(locks),
        "worlds": dict(worlds),
        "real_components": components(worlds)[0],
        "stub_components": components(worlds)[1],
        "known_findings_seen": dict(known_hits),
        "build_s": round(getattr(sc, "build_s", 0), 1),
        "rewritten_mutex_decls": (sc.info or {}).get("rewritten_mutex_decls"),
        "code_rev": code_rev(),
        "workers": extra.get("workers"),
    }
    for k, v in extra.items():
        if k not in ("rule", "real", "stub", "world"):
            cov.setdefault(k, v)
    ev = {
        "property_id": prop, "tier": tier, "seed": seed, "level": "exploration", "coverage": cov,
        "assumptions": extra.get("assumptions", [
            "the simulated network, clock and scheduler (DESIGN.md 2) stand in for real sockets, time and goroutine scheduling",
            "sync.Mutex/RWMutex are replaced by simsync (same semantics, channel-based) in the simulated build",
            "seeded sampling: a clean batch is evidence over the plans explored, not a proof"]),
        "wall_s": round(wall, 2),
        "violations": len(new),
    }
    evd = os.environ.get("VERIF_EVIDENCE_DIR", os.path.join(VERIF, "evidence"))
    os.makedirs(evd, exist_ok=True)
    json.dump(ev, open(os.path.join(evd, prop + ".json"), "w"), indent=1)
    return ev


def is_nontrivial(r):
    return r.get("steps", 0) >= 10 and (r.get("requests", 0) >= 3 or r.get("nontrivial"))


def check(prop, tier):
    seed = int(os.environ.get("VERIF_SEED", "1"))
    tier = os.environ.get("VERIF_TIER", tier)
    if tier not in ("quick", "thorough"):
        tier = "quick"
    budget = PROP_BUDGET.get(prop, {}).get(tier, BUDGET[tier])
    if os.environ.get("VERIF_BUDGET"):
        budget = int(os.environ["VERIF_BUDGET"])
    t0 = time.time()
    sc = Scratch()
    try:
        if not sc.build():
            log("build failed")
            return 2
        log("built in %.1fs (%s mutex declarations rewritten)" % (sc.build_s, sc.info["rewritten_mutex_decls"]))
        import propcfg
        pc = propcfg.CFG.get(prop, {})
        recs, harness = [], []
        passes = pc.get("passes") or [{"prop": prop, "share": 1.0}]
        for ps in passes:
            b = max(3, budget * ps.get("share", 1.0))
            scx = sc
            if ps.get("race"):
                scx = Scratch(race=True)
                # reuse the prepared tree: build the race binary in the same scratch dir
                scx.dir, scx.info = sc.dir, sc.info
                scx.bin = prep.build(sc.dir, race=True)
                if scx.bin is None:
                    log("race build failed")
                    return 2
            r, h = explore(scx, ps["prop"], tier, seed, b, NCPU if not ps.get("workers") else ps["workers"], ps.get("env"))
            r = [x for x in r if x.get("reason") != "skipped"]
            for x in r:
                if x.get("agg"):
                    x["runs"] -= (x.get("reasons") or {}).get("skipped", 0)
            for x in r:
                x["pass"] = ps.get("name", ps["prop"])
                if ps.get("env"):
                    x["env"] = ps["env"]
                if ps.get("race"):
                    x["race"] = True
            recs += r
            harness += h
        known = load_known()
        known_hits, new, h2 = triage(sc, prop, recs, known, os.environ.get("VERIF_REPLAY_DIR", os.path.join(VERIF, "replays")))
        harness += h2
        wall = time.time() - t0
        extra = dict(pc.get("evidence") or {})
        extra["workers"] = NCPU
        evidence(prop, tier, seed, recs, wall, sc, known_hits, new, extra)
        for f in known:
            if f["id"] in known_hits:
                print("KNOWN-FINDING: property=%s %s (seen in %d runs)" % (prop, f["what"], known_hits[f["id"]]))
        nruns = sum(r.get("runs", 0) if r.get("agg") else 1 for r in recs if r.get("reason") != "harness")
        log("%s %s: %d runs in %.1fs, %d new violation classes, %d known-finding hits" % (prop, tier, nruns, wall, len(new), sum(known_hits.values())))
        if new:
            for v, path, nr in new:
                print("VIOLATION property=%s replay=%s" % (prop, path))
                log("  class=%s key=%s\n  %s" % (v["class"], json.dumps(v.get("key")), (v.get("detail") or "")[:600]))
            return 1
        if harness:
            for hmsg in harness[:5]:
                log("HARNESS TROUBLE: " + hmsg[:1500])
            return 2
        if nruns == 0:
            log("no runs executed")
            return 2
        return 0
    finally:
        if not os.environ.get("VERIF_KEEP"):
            sc.cleanup()
        else:
            log("kept scratch " + sc.dir)


def replay(path):
    plan = json.load(open(path))
    exp = plan.get("expect") or {}
    sc = Scratch()
    try:
        if not sc.build():
            return 2
        if plan.get("mode") == "free-race":
            rb = prep.build(sc.dir, race=True)
            if rb is None:
                return 2
            for attempt in range(int(os.environ.get("VERIF_RACE_TRIES", "30"))):
                rec, code, err = run_plan(sc, plan, extra_env={"VERIF_RACEMODE": "1"}, binary=rb)
                v = has_class(rec, exp.get("property"), "data-race")
                if v and (v.get("key") or {}).get("where") == (exp.get("key") or {}).get("where"):
                    print("VIOLATION property=%s replay=%s" % (v["property"], os.path.abspath(path)))
                    log("race reproduced at attempt %d: %s" % (attempt + 1, (v.get("key") or {}).get("where")))
                    return 1
            log("race not reproduced in the attempts made (its interleaving is not pinned by the plan)")
            return 0
        rec, code, err = run_plan(sc, plan, keep_log=True)
        if rec is None:
            log("no record (exit %s): %s" % (code, err[-2000:]))
            return 2
        vs = [v for v in rec.get("violations") or [] if not exp or (v["property"] == exp.get("property") and v["class"] == exp.get("class"))]
        print(json.dumps({"reason": rec.get("reason"), "steps": rec.get("steps"), "violations": rec.get("violations"), "errors": rec.get("errors")}, indent=1))
        if os.environ.get("VERIF_SHOWLOG"):
            for l in rec.get("log") or []:
                print(l)
        if vs:
            v = vs[0]
            same = (not exp) or (v.get("step") == exp.get("step") and v.get("t_ns") == exp.get("t_ns"))
            print("VIOLATION property=%s replay=%s" % (v["property"], os.path.abspath(path)))
            log("reproduced: class=%s key=%s step=%s t_ns=%s (%s recorded step/time)" % (v["class"], json.dumps(v.get("key")), v.get("step"), v.get("t_ns"), "same as" if same else "differs from"))
            return 1
        log("replay did not reproduce the expected violation")
        return 0
    finally:
        sc.cleanup()


def main(argv):
    if not argv:
        print(__doc__ or "usage: verif <Cnn> quick|thorough | replay <file>")
        return 2
    if argv[0] == "replay":
        return replay(argv[1])
    if argv[0] == "minimize":
        # verif minimize <plan.json> <property> <class> <out.json>
        plan = json.load(open(argv[1]))
        sc = Scratch()
        try:
            if not sc.build():
                return 2
            small, n = ddmin(sc, plan, argv[2], argv[3], max_runs=int(os.environ.get("VERIF_DDMIN_RUNS", "400")))
            rec, code, err = run_plan(sc, small, keep_log=True)
            v = has_class(rec, argv[2], argv[3])
            if not v:
                log("minimised plan does not reproduce")
                return 2
            small["expect"] = {"property": argv[2], "class": v["class"], "key": v.get("key"), "step": v.get("step"), "t_ns": v.get("t_ns"), "detail": v.get("detail", "")[:2000]}
            small["code_rev"] = code_rev()
            json.dump(small, open(argv[4], "w"), indent=1)
            log("minimised to %d ops in %d runs" % (len(small.get("ops") or []), n))
            return 0
        finally:
            sc.cleanup()
    if argv[0] == "selftest":
        import selftest
        return selftest.main(argv[1:])
    if argv[0] == "gen":
        sc = Scratch()
        try:
            if not sc.build():
                return 2
            r = subprocess.run([sc.bin, "-test.run", "TestWorker", "-mode", "gen", "-prop", argv[1], "-seed", argv[2], "-from", argv[3]], capture_output=True, text=True)
            print(r.stdout.splitlines()[0])
            return 0
        finally:
            sc.cleanup()
    prop = argv[0]
    tier = argv[1] if len(argv) > 1 else "quick"
    return check(prop, tier)
