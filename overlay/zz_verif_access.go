package turn

// Accessors for the simulator (scratch copy only; never part of /repo). They expose
// unexported state for cross-checks; every verdict is also observable from outside.

// VerifTrMapSize returns the number of transactions in the client's table.
func (c *Client) VerifTrMapSize() int { return c.trMap.Size() }
