// Package simsync replaces sync.Mutex / sync.RWMutex in the simulated build of pion/turn
// (scratch copy only; never part of /repo). Same method sets and Go's writer-preferring
// semantics, but waiting happens on channels, so a blocked goroutine is durably blocked
// for testing/synctest, every acquisition and release is a scheduler yield point, and
// the set of held locks (with acquisition sites) is always known.
package simsync

import (
	"time"
	"sync/atomic"
	"fmt"
	"net"
	"path/filepath"
	"runtime"
	"sort"
	"strconv"
	"sync"
)

// Hook is called before every acquisition ("lock"/"rlock") and after every release
// ("unlock"/"runlock") with the caller's file:line. Set by the simulator.
var Hook func(kind, site string)

type waiter struct {
	ch     chan struct{}
	writer bool
	site   string
}

type core struct {
	mu      sync.Mutex // guards the fields below; never held while blocking
	writer  bool
	readers int
	q       []*waiter
	wsite   string
	rsites  map[string]int
}

var (
	regMu sync.Mutex
	reg   = map[*core]struct{}{}
	sites = map[string]int{}
)

func site(skip int) string {
	_, file, line, ok := runtime.Caller(skip)
	if !ok {
		return "?"
	}
	return filepath.Base(file) + ":" + strconv.Itoa(line)
}

// Track switches the held-lock registry (a process-wide mutex) on and off. Off in the
// free-running race mode, where the simulated locks must synchronise no more than real ones.
var Track = true

func track(c *core, s string) {
	if !Track {
		return
	}
	regMu.Lock()
	reg[c] = struct{}{}
	sites[s]++
	regMu.Unlock()
}

func (c *core) lock(s string) {
	if Hook != nil {
		Hook("lock", s)
	}
	track(c, s)
	c.mu.Lock()
	if !c.writer && c.readers == 0 && len(c.q) == 0 {
		c.writer = true
		c.wsite = s
		c.mu.Unlock()
		return
	}
	w := &waiter{ch: make(chan struct{}), writer: true, site: s}
	c.q = append(c.q, w)
	c.mu.Unlock()
	<-w.ch
}

func (c *core) rlock(s string) {
	if Hook != nil {
		Hook("rlock", s)
	}
	track(c, s)
	c.mu.Lock()
	if !c.writer && len(c.q) == 0 {
		c.readers++
		if c.rsites == nil {
			c.rsites = map[string]int{}
		}
		c.rsites[s]++
		c.mu.Unlock()
		return
	}
	w := &waiter{ch: make(chan struct{}), site: s}
	c.q = append(c.q, w)
	c.mu.Unlock()
	<-w.ch
}

// grant hands the lock to queued waiters; called with c.mu held.
func (c *core) grant() {
	for len(c.q) > 0 {
		w := c.q[0]
		if w.writer {
			if c.writer || c.readers > 0 {
				return
			}
			c.writer = true
			c.wsite = w.site
			c.q = c.q[1:]
			close(w.ch)
			return
		}
		if c.writer {
			return
		}
		c.readers++
		if c.rsites == nil {
			c.rsites = map[string]int{}
		}
		c.rsites[w.site]++
		c.q = c.q[1:]
		close(w.ch)
	}
}

func (c *core) unlock(s string) {
	c.mu.Lock()
	if !c.writer {
		c.mu.Unlock()
		panic("simsync: unlock of unlocked mutex at " + s)
	}
	c.writer = false
	c.wsite = ""
	c.grant()
	c.mu.Unlock()
	if Hook != nil {
		Hook("unlock", s)
	}
}

func (c *core) runlock(s string) {
	c.mu.Lock()
	if c.readers <= 0 {
		c.mu.Unlock()
		panic("simsync: RUnlock of unlocked RWMutex at " + s)
	}
	c.readers--
	// forget one reader site (which one is immaterial for reporting)
	for k, v := range c.rsites {
		if v > 0 {
			if v == 1 {
				delete(c.rsites, k)
			} else {
				c.rsites[k] = v - 1
			}
			break
		}
	}
	c.grant()
	c.mu.Unlock()
	if Hook != nil {
		Hook("runlock", s)
	}
}

// Mutex is a drop-in for sync.Mutex.
type Mutex struct{ c core }

func (m *Mutex) Lock()   { m.c.lock(site(2)) }
func (m *Mutex) Unlock() { m.c.unlock(site(2)) }
func (m *Mutex) TryLock() bool {
	m.c.mu.Lock()
	defer m.c.mu.Unlock()
	if m.c.writer || m.c.readers > 0 {
		return false
	}
	m.c.writer = true
	m.c.wsite = site(2)
	return true
}

// RWMutex is a drop-in for sync.RWMutex.
type RWMutex struct{ c core }

func (m *RWMutex) Lock()    { m.c.lock(site(2)) }
func (m *RWMutex) Unlock()  { m.c.unlock(site(2)) }
func (m *RWMutex) RLock()   { m.c.rlock(site(2)) }
func (m *RWMutex) RUnlock() { m.c.runlock(site(2)) }

// Held lists the acquisition sites of all locks currently held.
func Held() []string {
	regMu.Lock()
	cs := make([]*core, 0, len(reg))
	for c := range reg {
		cs = append(cs, c)
	}
	regMu.Unlock()
	var out []string
	for _, c := range cs {
		c.mu.Lock()
		if c.writer {
			out = append(out, "W@"+c.wsite)
		}
		for s, n := range c.rsites {
			for i := 0; i < n; i++ {
				out = append(out, "R@"+s)
			}
		}
		c.mu.Unlock()
	}
	sort.Strings(out)
	return out
}

// Waiting lists "waiter-site<-holder-site" for every blocked acquisition.
func Waiting() []string {
	regMu.Lock()
	cs := make([]*core, 0, len(reg))
	for c := range reg {
		cs = append(cs, c)
	}
	regMu.Unlock()
	var out []string
	for _, c := range cs {
		c.mu.Lock()
		for _, w := range c.q {
			h := c.wsite
			if h == "" {
				for s := range c.rsites {
					h = "R@" + s
					break
				}
			}
			out = append(out, w.site+"<-"+h)
		}
		c.mu.Unlock()
	}
	sort.Strings(out)
	return out
}

// Sites returns acquisition counts per site since the last Reset.
func Sites() map[string]int {
	regMu.Lock()
	defer regMu.Unlock()
	out := make(map[string]int, len(sites))
	for k, v := range sites {
		out[k] = v
	}
	return out
}

// Reset forgets all locks (between runs; the previous run's objects are garbage).
func Reset() {
	regMu.Lock()
	reg = map[*core]struct{}{}
	sites = map[string]int{}
	regMu.Unlock()
}

// Keys returns the keys of m in a deterministic order (sorted by their %v rendering).
// The simulated build iterates maps through Keys/Values: Go's own map iteration order
// cannot be seeded, and any order is a legal one.
func Keys[K comparable, V any](m map[K]V) []K {
	ks := make([]K, 0, len(m))
	for k := range m {
		ks = append(ks, k)
	}
	sort.Slice(ks, func(i, j int) bool { return render(ks[i]) < render(ks[j]) })
	return ks
}

// TimerHook, when set, is called at the start of every AfterFunc callback with the creation
// rank of its timer (timers created earlier have smaller ranks).
var TimerHook func(rank uint64)

var timerRank atomic.Uint64

// AfterFunc is time.AfterFunc; the callback first reports the rank of its timer. Several
// timers that fire at the same (virtual) instant are started by the runtime in the order of
// its timer heap, which also holds unrelated real-time timers; the scheduler orders the
// callbacks by their creation rank instead.
func AfterFunc(d time.Duration, f func()) *time.Timer {
	rank := timerRank.Add(1)
	return time.AfterFunc(d, func() {
		if h := TimerHook; h != nil {
			h(rank)
		}
		f()
	})
}

// Values returns the values of m ordered by Keys(m).
func Values[K comparable, V any](m map[K]V) []V {
	ks := Keys(m)
	vs := make([]V, 0, len(ks))
	for _, k := range ks {
		vs = append(vs, m[k])
	}
	return vs
}

func render(k any) string {
	// connections are ordered by their addresses, not by their (process-specific) pointers
	if c, ok := k.(interface {
		RemoteAddr() net.Addr
		LocalAddr() net.Addr
	}); ok {
		return fmt.Sprintf("%v>%v", c.RemoteAddr(), c.LocalAddr())
	}
	return fmt.Sprintf("%v", k)
}
