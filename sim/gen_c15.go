package sim

func init() {
	generators["C15"] = genC15
	generators["C18"] = genC18
}

// genC15: histories cut short by every teardown cause, optionally during a slow callback.
func genC15(p *Plan, r *RNG) {
	if r.Chance(1, 15) {
		// a stream client that reconnects from the same address while its old connection is
		// still being cleaned up: two connections, one 5-tuple - and Server.Close at the end
		if r.Chance(1, 2) {
			genC06ReconnectRace(p, r)
		} else {
			genC06Reconnect(p, r)
		}
		p.Flavor = "teardown:" + p.Flavor
		return
	}
	if r.Chance(1, 20) {
		// connections of a TLS listener are resources too: handshakes that fail, stall or never start
		genC09TLS(p, r)
		p.Flavor = "teardown:" + p.Flavor
		return
	}
	if r.Chance(1, 8) {
		genRaceExpiry(p, r)
		p.Flavor = "teardown:" + p.Flavor
		return
	}
	if r.Chance(1, 4) {
		// TCP allocations: peer connections and data connections are owned resources too
		genC16(p, r)
		p.Flavor = "teardown:" + p.Flavor
		cut := r.Range(2, len(p.Ops))
		c := p.Clients[r.Intn(len(p.Clients))].ID
		var td Op
		switch r.Intn(4) {
		case 0:
			td = Op{Kind: "srv_close", At: gap(int64(r.Range(1, 2000)) * ms)}
		case 1:
			td = Op{Actor: c, Kind: "tcp_close", At: gap(int64(r.Range(1, 2000)) * ms)}
		case 2:
			td = Op{Actor: c, Kind: "refresh", At: gap(int64(r.Range(1, 2000)) * ms), A: OpArgs{Lifetime: 0}}
			if p.Clients[0].Kind == "real" {
				td = Op{Actor: c, Kind: "close_tcp", At: gap(int64(r.Range(1, 2000)) * ms)} // the application closes the allocation
			}
		case 3:
			p.IOFaults = append(p.IOFaults, IOFault{M: Match{Sock: "relay", Op: "Accept", Nth: r.Range(1, 4)}, Do: "error"})
			td = Op{Kind: "wait", At: gap(ms)}
		}
		if r.Chance(1, 3) {
			// closing the relay listener reports an error (it is closed all the same): whatever
			// else the allocation owns - peer connections, their timers, the pipes - goes too
			p.IOFaults = append(p.IOFaults, IOFault{M: Match{Sock: "relay", Op: "Close", Nth: r.Range(1, 2)}, Do: "error"})
			p.Flavor += "+relay-close-err"
		}
		ops := append([]Op{}, p.Ops[:cut]...)
		ops = append(ops, td)
		p.Ops = append(ops, p.Ops[cut:]...)
		return
	}
	genMix(p, r, "C15")
	p.Flavor = "teardown:" + p.Flavor
	// drop the faults genMix drew; teardown plans bring their own
	p.NetFaults, p.IOFaults, p.Stalls = nil, nil, nil
	n := len(p.Ops)
	cut := r.Range(2, n)
	cause := r.Pick([]string{"expiry", "refresh0", "srv_close", "srv_close", "relay_read", "relay_write", "ctl_close", "listener_write", "none", "relay_close_err", "relay_read+close_err"})
	if cause == "ctl_close" && p.Cfg.Listener != "tcp" {
		cause = "refresh0"
	}
	c := p.Clients[r.Intn(len(p.Clients))].ID
	g := gap(int64(r.Range(1, 2000)) * ms)
	var td []Op
	switch cause {
	case "expiry":
		td = append(td, Op{Kind: "wait", At: ref("alloc_deadline", r.PickI64([]int64{1, sec, -1}), c)})
	case "refresh0":
		td = append(td, Op{Actor: c, Kind: "refresh", At: g, A: OpArgs{Lifetime: 0}})
	case "srv_close":
		td = append(td, Op{Kind: "srv_close", At: g})
	case "relay_read":
		p.IOFaults = append(p.IOFaults, IOFault{M: Match{Sock: "relay", Op: "ReadFrom", Nth: r.Range(1, 6)}, Do: "error"})
	case "relay_write":
		p.IOFaults = append(p.IOFaults, IOFault{M: Match{Sock: "relay", Op: "WriteTo", Nth: r.Range(1, 4)}, Do: "error"})
	case "relay_close_err":
		// the relay socket's Close reports an error (whatever makes the allocation end)
		p.IOFaults = append(p.IOFaults, IOFault{M: Match{Sock: "relay", Op: "Close", Nth: r.Range(1, 3)}, Do: "error"})
		if r.Chance(1, 2) {
			td = append(td, Op{Actor: c, Kind: "refresh", At: g, A: OpArgs{Lifetime: 0}})
		} else {
			td = append(td, Op{Kind: "wait", At: ref("alloc_deadline", sec, c)})
		}
	case "relay_read+close_err":
		p.IOFaults = append(p.IOFaults, IOFault{M: Match{Sock: "relay", Op: "ReadFrom", Nth: r.Range(1, 6)}, Do: "error"},
			IOFault{M: Match{Sock: "relay", Op: "Close", Nth: 0}, Do: "error"})
	case "listener_write":
		p.IOFaults = append(p.IOFaults, IOFault{M: Match{Sock: "listener", Op: "WriteTo", Nth: r.Range(1, 8)}, Do: "error"})
	case "ctl_close":
		o := Op{Actor: c, Kind: "tcp_close", At: g}
		if r.Chance(1, 2) {
			o.A.Flags = []string{"rst"}
		}
		td = append(td, o)
	}
	// prefix of length cut, then the teardown, then (sometimes) the rest of the history
	ops := append([]Op{}, p.Ops[:cut]...)
	ops = append(ops, td...)
	if r.Chance(1, 2) {
		ops = append(ops, p.Ops[cut:]...)
	}
	p.Ops = ops
	if len(td) > 0 && r.Chance(1, 3) {
		// directed: park the handling of the request right before the teardown so that the
		// teardown strikes while it is in progress, or park the teardown itself so that the
		// requests after it arrive while it is in progress (ids are positions + 1)
		p.Flavor += "+directed"
		park := r.PickI64([]int64{50 * ms, sec, 5 * sec, 31 * sec})
		if r.Chance(1, 2) {
			cls := r.Pick([]string{"cb:Auth", "cb:OnAuth", "cb:AllocatePacketConn", "cb:Quota", "cb:Permission", "lock", "unlock", "rlock", "runlock", "log:*",
				"cb:OnAllocationCreated", "cb:OnPermissionCreated", "cb:OnChannelCreated", "sock:listener:WriteTo", "sock:relay:WriteTo"})
			nth := 1
			if cls == "lock" || cls == "unlock" || cls == "rlock" || cls == "runlock" || cls == "log:*" {
				nth = r.Range(1, 8)
			}
			p.Stalls = append(p.Stalls, Stall{M: Match{Class: cls, Args: "*", Nth: nth}, ParkNS: park, AfterOp: cut})
			p.Ops[cut].At = gap(r.PickI64([]int64{ms, park / 3, park - 1})) // the teardown, inside the park
		} else {
			cls := r.Pick([]string{"cb:OnAllocationDeleted", "cb:OnPermissionDeleted", "cb:OnChannelDeleted", "sock:relay:Close", "lock", "unlock", "log:*"})
			nth := 1
			if cls == "lock" || cls == "unlock" || cls == "log:*" {
				nth = r.Range(1, 8)
			}
			p.Stalls = append(p.Stalls, Stall{M: Match{Class: cls, Args: "*", Nth: nth}, ParkNS: park, AfterOp: cut + 1})
			if cut+len(td) < len(p.Ops) {
				p.Ops[cut+len(td)].At = gap(r.PickI64([]int64{ms, park / 3}))
			}
		}
	} else if r.Chance(1, 2) {
		// a slow lifecycle callback at the step of the teardown
		cls := r.Pick([]string{"cb:OnPermissionCreated", "cb:OnPermissionDeleted", "cb:OnAllocationCreated", "cb:OnAllocationDeleted", "cb:OnChannelCreated", "cb:OnChannelDeleted", "cb:Permission", "cb:Auth"})
		p.Stalls = append(p.Stalls, Stall{M: Match{Class: cls, Args: "*", Nth: r.Range(1, 4)}, ParkNS: r.PickI64([]int64{1, ms, sec, 31 * sec, 301 * sec, 601 * sec})})
	}
	if r.Chance(1, 4) {
		addFaults(p, r, 1)
	}
	p.QuietNS = int64(r.PickInt([]int{5, 700, 3700})) * sec
}

// genC18: the densest yield configuration over the server-world histories.
func genC18(p *Plan, r *RNG) {
	if r.Chance(1, 14) {
		// two parties that each wait to write on the one stream between them (no stalls added:
		// the windows are the delay)
		genC14Backpressure(p, r)
		return
	}
	if r.Chance(1, 3) {
		genC15(p, r)
	} else if r.Chance(1, 4) {
		genC16(p, r)
	} else {
		genMix(p, r, r.Pick([]string{"C01", "C04", "C08"}))
	}
	p.Flavor = "dense:" + p.Flavor
	n := r.Range(2, 8)
	for i := 0; i < n; i++ {
		cls := r.Pick([]string{"cb:*", "cb:*", "log:*", "sock:*", "lock", "rlock", "unlock", "runlock", "lock", "unlock"})
		nth := r.Range(1, 40)
		if cls == "cb:*" || cls == "sock:*" {
			nth = r.Range(1, 8)
		}
		p.Stalls = append(p.Stalls, Stall{M: Match{Class: cls, Args: "*", Nth: nth}, ParkNS: r.PickI64([]int64{0, 1, ms, sec, 31 * sec, 301 * sec, 601 * sec})})
	}
	if r.Chance(1, 3) {
		p.Ops = append(p.Ops, Op{Kind: "srv_close", At: gap(int64(r.Range(1, 3000)) * ms)})
	}
}
