package sim

import (
	"context"
	"errors"
	"fmt"
	"io"
	"net"
	"strconv"
	"strings"
	"syscall"
	"time"

	"github.com/pion/transport/v4"
)

// SimTransport implements pion/transport's Net over simnet, so that the bundled relay
// address generators and the client's TCP allocation code run unmodified.
type SimTransport struct {
	N     *Net
	Role  string // role given to sockets it creates
	Owner string
	IP4   net.IP // what a wildcard / empty host binds to
	IP6   net.IP
	Hosts map[string]string // name -> ip literal
	// OnDial is told of every outgoing TCP connection made through this transport, with the
	// local address the caller asked for (a relay's outgoing connection names its relayed address)
	OnDial func(local *net.TCPAddr, c *TCPConn)
}

var _ transport.Net = (*SimTransport)(nil)

func (t *SimTransport) resolve(network, address string) (net.IP, int, error) {
	host, ps, err := net.SplitHostPort(address)
	if err != nil {
		return nil, 0, &net.AddrError{Err: err.Error(), Addr: address}
	}
	port, err := strconv.Atoi(ps)
	if err != nil || port < 0 || port > 65535 {
		return nil, 0, &net.AddrError{Err: "invalid port", Addr: address}
	}
	want6 := strings.HasSuffix(network, "6")
	want4 := strings.HasSuffix(network, "4")
	if h, ok := t.Hosts[host]; ok {
		host = h
	}
	var ip net.IP
	switch host {
	case "", "0.0.0.0", "::":
		if want6 || (host == "::" && !want4) {
			ip = t.IP6
		} else {
			ip = t.IP4
		}
	default:
		ip = net.ParseIP(host)
		if ip == nil {
			return nil, 0, &net.DNSError{Err: "no such host", Name: host, IsNotFound: true}
		}
	}
	if ip == nil {
		return nil, 0, &net.AddrError{Err: "no suitable address", Addr: address}
	}
	if (want4 && ip.To4() == nil) || (want6 && ip.To4() != nil) {
		return nil, 0, &net.AddrError{Err: "address family mismatch for " + network, Addr: address}
	}
	return ip, port, nil
}

func (t *SimTransport) ListenPacket(network, address string) (net.PacketConn, error) {
	if !strings.HasPrefix(network, "udp") {
		return nil, net.UnknownNetworkError(network)
	}
	ip, port, err := t.resolve(network, address)
	if err != nil {
		return nil, err
	}
	return t.N.ListenUDP(t.Role, t.Owner, ip, port)
}

func (t *SimTransport) ListenUDP(network string, laddr *net.UDPAddr) (transport.UDPConn, error) {
	ip, port := t.IP4, 0
	if laddr != nil {
		port = laddr.Port
		if len(laddr.IP) > 0 && !laddr.IP.IsUnspecified() {
			ip = laddr.IP
		}
	}
	s, err := t.N.ListenUDP(t.Role, t.Owner, ip, port)
	if err != nil {
		return nil, err
	}
	return udpShim{s}, nil
}

func (t *SimTransport) ListenTCP(network string, laddr *net.TCPAddr) (transport.TCPListener, error) {
	ip, port := t.IP4, 0
	if laddr != nil {
		port = laddr.Port
		if len(laddr.IP) > 0 && !laddr.IP.IsUnspecified() {
			ip = laddr.IP
		}
	}
	l, err := t.N.ListenTCP(t.Role, t.Owner, ip, port)
	if err != nil {
		return nil, err
	}
	return tcpListenerShim{l}, nil
}

func (t *SimTransport) Dial(network, address string) (net.Conn, error) {
	return t.dialFrom(network, nil, address)
}

func (t *SimTransport) dialFrom(network string, local net.Addr, address string) (net.Conn, error) {
	ip, port, err := t.resolve(network, address)
	if err != nil {
		return nil, err
	}
	if strings.HasPrefix(network, "udp") {
		return nil, errors.New("simtransport: connected UDP not supported")
	}
	lip := t.IP4
	if ip.To4() == nil {
		lip = t.IP6
	}
	lport := 0
	if la, ok := local.(*net.TCPAddr); ok && la != nil {
		if len(la.IP) > 0 {
			lip = la.IP
		}
		// SO_REUSEPORT semantics: the relay's own port may be shared with its listener
		lport = 0
		_ = la.Port
	}
	c, err := t.N.Dial(t.Role+"-out", &net.TCPAddr{IP: lip, Port: lport}, &net.TCPAddr{IP: ip, Port: port}, 0)
	if err != nil {
		return nil, err
	}
	if t.OnDial != nil {
		la, _ := local.(*net.TCPAddr)
		t.OnDial(la, c)
	}
	return shimConn(c), nil
}

func (t *SimTransport) DialUDP(network string, laddr, raddr *net.UDPAddr) (transport.UDPConn, error) {
	return nil, errors.New("simtransport: DialUDP not supported")
}

func (t *SimTransport) DialTCP(network string, laddr, raddr *net.TCPAddr) (transport.TCPConn, error) {
	var la net.Addr
	if laddr != nil {
		la = laddr
	}
	c, err := t.dialFrom(network, la, raddr.String())
	if err != nil {
		return nil, err
	}
	return c.(transport.TCPConn), nil
}

func (t *SimTransport) ResolveIPAddr(network, address string) (*net.IPAddr, error) {
	ip := net.ParseIP(address)
	if ip == nil {
		return nil, &net.DNSError{Err: "no such host", Name: address, IsNotFound: true}
	}
	return &net.IPAddr{IP: ip}, nil
}

func (t *SimTransport) ResolveUDPAddr(network, address string) (*net.UDPAddr, error) {
	ip, port, err := t.resolve(network, address)
	if err != nil {
		return nil, err
	}
	return &net.UDPAddr{IP: ip, Port: port}, nil
}

func (t *SimTransport) ResolveTCPAddr(network, address string) (*net.TCPAddr, error) {
	ip, port, err := t.resolve(network, address)
	if err != nil {
		return nil, err
	}
	return &net.TCPAddr{IP: ip, Port: port}, nil
}

func (t *SimTransport) Interfaces() ([]*transport.Interface, error) { return nil, nil }
func (t *SimTransport) InterfaceByIndex(int) (*transport.Interface, error) {
	return nil, errors.New("no interfaces")
}
func (t *SimTransport) InterfaceByName(string) (*transport.Interface, error) {
	return nil, errors.New("no interfaces")
}

type simDialer struct {
	t *SimTransport
	d *net.Dialer
}

func (d simDialer) Dial(network, address string) (net.Conn, error) {
	var la net.Addr
	if d.d != nil {
		la = d.d.LocalAddr
	}
	return d.t.dialFrom(network, la, address)
}

func (t *SimTransport) CreateDialer(d *net.Dialer) transport.Dialer { return simDialer{t, d} }

// simListenConfig: a net.ListenConfig with a Control function is taken for what the bundled
// generators pass there - reuseport.Control, i.e. SO_REUSEADDR + SO_REUSEPORT.
type simListenConfig struct {
	t     *SimTransport
	reuse bool
}

func (l simListenConfig) Listen(ctx context.Context, network, address string) (net.Listener, error) {
	if !strings.HasPrefix(network, "tcp") {
		return nil, net.UnknownNetworkError(network)
	}
	ip, port, err := l.t.resolve(network, address)
	if err != nil {
		return nil, err
	}
	ln, err := l.t.N.ListenTCPReuse(l.t.Role, l.t.Owner, ip, port, l.reuse)
	if err != nil {
		return nil, err
	}
	return ln, nil
}

func (l simListenConfig) ListenPacket(ctx context.Context, network, address string) (net.PacketConn, error) {
	return l.t.ListenPacket(network, address)
}

func (t *SimTransport) CreateListenConfig(lc *net.ListenConfig) transport.ListenConfig {
	return simListenConfig{t, lc != nil && lc.Control != nil}
}

// ---- shims giving simnet objects pion/transport's wider method sets

type udpShim struct{ *UDPSock }

func (u udpShim) RemoteAddr() net.Addr { return nil }
func (u udpShim) Read(b []byte) (int, error) {
	n, _, err := u.ReadFrom(b)
	return n, err
}
func (u udpShim) ReadFromUDP(b []byte) (int, *net.UDPAddr, error) {
	n, a, err := u.ReadFrom(b)
	ua, _ := a.(*net.UDPAddr)
	return n, ua, err
}
func (u udpShim) ReadMsgUDP(b, oob []byte) (int, int, int, *net.UDPAddr, error) {
	n, a, err := u.ReadFromUDP(b)
	return n, 0, 0, a, err
}
func (u udpShim) Write(b []byte) (int, error) { return 0, syscall.EDESTADDRREQ }
func (u udpShim) WriteToUDP(b []byte, addr *net.UDPAddr) (int, error) { return u.WriteTo(b, addr) }
func (u udpShim) WriteMsgUDP(b, oob []byte, addr *net.UDPAddr) (int, int, error) {
	n, err := u.WriteTo(b, addr)
	return n, 0, err
}
func (u udpShim) SetReadBuffer(int) error  { return nil }
func (u udpShim) SetWriteBuffer(int) error { return nil }

type tcpListenerShim struct{ *TCPListener }

func (l tcpListenerShim) AcceptTCP() (transport.TCPConn, error) {
	c, err := l.Accept()
	if err != nil {
		return nil, err
	}
	return shimConn(c.(*TCPConn)), nil
}
func (l tcpListenerShim) SetDeadline(time.Time) error { return nil }

var _ = fmt.Sprintf
var _ io.Reader
