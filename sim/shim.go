package sim

import (
	"io"
	"time"

	"github.com/pion/transport/v4"
)

type tcpConnShim struct{ *TCPConn }

func (t tcpConnShim) CloseRead() error                       { return nil }
func (t tcpConnShim) ReadFrom(r io.Reader) (int64, error)    { return io.Copy(writerOnly{t.TCPConn}, r) }
func (t tcpConnShim) SetLinger(int) error                    { return nil }
func (t tcpConnShim) SetKeepAlive(bool) error                { return nil }
func (t tcpConnShim) SetKeepAlivePeriod(time.Duration) error { return nil }
func (t tcpConnShim) SetNoDelay(bool) error                  { return nil }
func (t tcpConnShim) SetWriteBuffer(int) error               { return nil }
func (t tcpConnShim) SetReadBuffer(int) error                { return nil }

type writerOnly struct{ w io.Writer }

func (w writerOnly) Write(b []byte) (int, error) { return w.w.Write(b) }

func shimConn(c *TCPConn) transport.TCPConn { return tcpConnShim{c} }
