package sim

import "fmt"

func init() { generators["C13"] = genC13 }

// genC13: WriteTo / ReadFrom / SetReadDeadline / Close on the relayed socket, every server
// reaction to CreatePermission and ChannelBind, inbound indications and bursts.
func genC13(p *Plan, r *RNG) {
	p.World = "cli"
	p.Flavor = "relay"
	p.Cfg = Config{Realm: "sim.realm", LatCSns: int64(r.Range(1, 40))*ms + int64(r.Intn(1000))*7 + 3, LatSPns: ms,
		RTOms: r.PickInt([]int{0, 50, 200}), AllocLifeS: r.PickInt([]int{0, 600, 40}), Extra: map[string]int64{}}
	np := r.Range(1, 5)
	peers := []string{}
	for i := 0; i < np; i++ {
		ip := fmt.Sprintf("10.0.2.%d", 1+i)
		if i > 0 && r.Chance(1, 3) {
			ip = "10.0.2.1" // same IP, other port
		}
		peers = append(peers, fmt.Sprintf("%s:%d", ip, 5000+i*7))
	}
	if r.Chance(1, 40) {
		// many peers: every one gets a channel number of its own, all inside 0x4000-0x7FFF
		// (one IP, many ports: a single permission covers them)
		p.Flavor = "relay-manypeers"
		n := r.PickInt([]int{40, 200, 700})
		if p.Tier == "thorough" && r.Chance(1, 25) {
			n = r.PickInt([]int{5000, 16384})
		}
		p.Ops = append(p.Ops, Op{Actor: "app", Kind: "alloc", At: gap(10 * ms)})
		for i := 0; i < n; i++ {
			g := int64(r.Range(1, 30)) * ms
			if i == 0 {
				g = 500 * ms
			}
			p.Ops = append(p.Ops, Op{Actor: fmt.Sprintf("app%d", i%3), Kind: "writeto", At: gap(g), A: OpArgs{Peer: fmt.Sprintf("10.0.2.1:%d", 10000+i), Len: 12}})
		}
		p.Ops = append(p.Ops, Op{Actor: "app", Kind: "wait", At: gap(3 * sec)})
		for k := 0; k < 6; k++ {
			i := r.Intn(n)
			p.Ops = append(p.Ops, Op{Actor: fmt.Sprintf("app%d", i%3), Kind: "writeto", At: gap(50 * ms), A: OpArgs{Peer: fmt.Sprintf("10.0.2.1:%d", 10000+i), Len: 20}})
			p.Ops = append(p.Ops, Op{Actor: "srv", Kind: "srv_chandata", At: gap(20 * ms), A: OpArgs{Chan: 0x4000 + r.Intn(n), Len: 16}})
			p.Ops = append(p.Ops, Op{Actor: "app", Kind: "readfrom", At: gap(20 * ms)})
		}
		p.Ops = append(p.Ops, Op{Actor: "app", Kind: "bind_txn", At: gap(2 * sec), A: OpArgs{Flags: []string{"probe"}}})
		p.QuietNS = 20 * sec
		return
	}
	if r.Chance(1, 14) {
		// the periodic permission refresh is on the wire (its answer is slow) when the application
		// writes to peers it has not written to before, and the first CreatePermission for one of
		// them is answered 438 after the refresh has been answered: data for a peer leaves only
		// once a CreatePermission naming that peer has succeeded
		p.Flavor = "relay-refresh-race"
		p.Cfg.Extra["perm_refresh_ms"] = 2000
		p.Ops = append(p.Ops, Op{Actor: "app", Kind: "alloc", At: gap(10 * ms)})
		p.Ops = append(p.Ops, Op{Actor: "app0", Kind: "writeto", At: gap(500 * ms), A: OpArgs{Peer: "10.0.2.1:5000", Len: 20}})
		d1 := r.PickI64([]int64{200 * ms, 300 * ms, 500 * ms})
		p.Reactions = append(p.Reactions, Reaction{Method: "createperm", Txn: 2, Do: "ok", DelayNS: d1})
		p.Cfg.RTOms = 1000 // (no retransmission gets ahead of a slow answer)
		p.Reactions = append(p.Reactions, Reaction{Method: "createperm", Txn: 3, Do: r.Pick([]string{"stale", "stale", "err:403"}), DelayNS: d1 + r.PickI64([]int64{100 * ms, 300 * ms})})
		if r.Chance(1, 2) {
			p.Reactions = append(p.Reactions, Reaction{Method: "createperm", Txn: 4, Do: "stale", DelayNS: d1 + 200*ms})
		}
		// the refresh timer started when the allocation succeeded (two round trips after the call)
		tick := 10*ms + 4*p.Cfg.LatCSns + 2000*ms
		var t int64 = 510 * ms
		for i, off := range []int64{20 * ms, 60 * ms, 140 * ms} {
			at := tick + off
			p.Ops = append(p.Ops, Op{Actor: fmt.Sprintf("app%d", i%3), Kind: "writeto", At: gap(at - t), A: OpArgs{Peer: fmt.Sprintf("10.0.2.%d:%d", 2+i, 5010+i), Len: r.Range(9, 100)}})
			t = at
		}
		p.Ops = append(p.Ops, Op{Actor: "app", Kind: "wait", At: gap(3 * sec)})
		p.Ops = append(p.Ops, Op{Actor: "app", Kind: "bind_txn", At: gap(sec), A: OpArgs{Flags: []string{"probe"}}})
		p.QuietNS = 20 * sec
		return
	}
	if r.Chance(1, 12) {
		// the server binds the channel when it receives the request and may relay on it at
		// once; its success response is slow. ChannelData that arrives before the response
		// must still come out of ReadFrom with the bound peer's address.
		p.Flavor = "relay-early-chandata"
		d := r.PickI64([]int64{300 * ms, 900 * ms, 3 * sec})
		p.Reactions = append(p.Reactions, Reaction{Method: "chanbind", Txn: 1, Do: "ok", DelayNS: d})
		p.Ops = append(p.Ops, Op{Actor: "app", Kind: "alloc", At: gap(10 * ms)})
		p.Ops = append(p.Ops, Op{Actor: "app", Kind: "readfrom", At: gap(300 * ms)})
		p.Ops = append(p.Ops, Op{Actor: "app0", Kind: "writeto", At: gap(300 * ms), A: OpArgs{Peer: peers[0], Len: r.Range(9, 100)}})
		// CreatePermission round trip, then the ChannelBind request must have reached the server
		p.Ops = append(p.Ops, Op{Actor: "srv", Kind: "srv_chandata", At: gap(4*p.Cfg.LatCSns + 20*ms + int64(r.Intn(int(d/2/ms)))*ms), A: OpArgs{Chan: 0x4000, Len: r.Range(9, 100)}})
		p.Ops = append(p.Ops, Op{Actor: "app", Kind: "readfrom", At: gap(10 * ms)})
		p.Ops = append(p.Ops, Op{Actor: "app", Kind: "readfrom", At: gap(d + sec)})
		p.Ops = append(p.Ops, Op{Actor: "srv", Kind: "srv_chandata", At: gap(500 * ms), A: OpArgs{Chan: 0x4000, Len: r.Range(9, 100)}})
		p.Ops = append(p.Ops, Op{Actor: "app", Kind: "bind_txn", At: gap(2 * sec), A: OpArgs{Flags: []string{"probe"}}})
		p.QuietNS = 20 * sec
		return
	}
	tcp := r.Chance(1, 6)
	if tcp {
		p.Flavor = "relay-tcpalloc"
		p.Ops = append(p.Ops, Op{Actor: "app", Kind: "alloc_tcp", At: gap(10 * ms)})
		p.Ops = append(p.Ops, Op{Actor: "srv", Kind: "srv_connattempt", At: gap(int64(r.Range(500, 2000)) * ms), A: OpArgs{N: r.PickInt([]int{1, 5, 10, 11, 12, 30})}})
		if r.Chance(1, 2) {
			p.Ops = append(p.Ops, Op{Actor: "srv", Kind: "srv_connattempt", At: gap(int64(r.Range(1, 2000)) * ms), A: OpArgs{N: r.PickInt([]int{1, 10, 11, 40})}})
		}
		p.Ops = append(p.Ops, Op{Actor: "app", Kind: "bind_txn", At: gap(2 * sec), A: OpArgs{Flags: []string{"probe"}}})
		p.QuietNS = 20 * sec
		return
	}
	if r.Chance(1, 5) {
		// the client speaks TURN over a stream (its Conn is a STUNConn): the same contract, and
		// what it writes must stay a sequence of whole, padded frames
		p.Cfg.Extra["stream"] = 1
		p.Flavor = "relay-stream"
	}
	// server reactions
	for k := r.Intn(4); k > 0; k-- {
		do := r.Pick([]string{"err:400", "err:403", "stale", "drop", "ok", "ok"})
		re := Reaction{Method: r.Pick([]string{"createperm", "chanbind", "chanbind", "refresh"}), Txn: r.Range(1, 4), Do: do}
		if do == "drop" && r.Chance(1, 2) {
			re.Attempt = r.Range(1, 3)
		}
		if do == "ok" {
			re.DelayNS = r.PickI64([]int64{100 * ms, 700 * ms, 3 * sec})
		}
		p.Reactions = append(p.Reactions, re)
	}
	p.Ops = append(p.Ops, Op{Actor: "app", Kind: "alloc", At: gap(10 * ms)})
	n := r.Range(3, 24)
	readers := 0
	reuse := r.Chance(1, 6) // one writer that reuses its address object for every destination
	for i := 0; i < n; i++ {
		peer := peers[r.Intn(np)]
		g := gap(int64(r.Range(1, 1500)) * ms)
		if r.Chance(1, 10) {
			g = gap(int64(r.Range(2, 400)) * sec)
		}
		switch w := r.Intn(100); {
		case w < 30:
			o := Op{Actor: fmt.Sprintf("app%d", r.Intn(3)), Kind: "writeto", At: g, A: OpArgs{Peer: peer, Len: r.Range(9, 300)}}
			if r.Chance(1, 4) {
				o.A.Flags = []string{"ip4"} // the peer's address in the other net.IP form: the same peer
			}
			if reuse {
				o.Actor = "app0"
				o.A.Flags = append(o.A.Flags, "reuseaddr")
			}
			if p.Cfg.Extra["stream"] == 1 && r.Chance(1, 12) {
				// a payload at or beyond what a STUN or ChannelData length field can say: refused,
				// or sent whole - never a frame whose length field has wrapped, on a stream
				o.A.Len = r.PickInt([]int{65400, 65496, 65512, 65520, 65535, 65536, 65546, 70000})
			}
			p.Ops = append(p.Ops, o)
		case w < 45:
			p.Ops = append(p.Ops, Op{Actor: "app", Kind: "readfrom", At: g})
			readers++
		case w < 62:
			o := Op{Actor: "srv", Kind: "srv_data", At: g, A: OpArgs{Peer: peer, Len: r.Range(9, 300)}}
			if r.Chance(1, 8) {
				o.A.Flags = []string{"stranger"} // the same indication, but not from the server
			}
			if r.Chance(1, 6) {
				o.A.Content = r.Pick([]string{"stunlike", "stunvalid", "chanlike", "cookie0"})
				o.A.Len = r.PickInt([]int{16, 20, 24, 100}) // (long enough to stay unique: the oracle tells payloads apart by their bytes)
			}
			p.Ops = append(p.Ops, o)
		case w < 74:
			// ChannelData on the numbers the client hands out (0x4000, 0x4001, ...) or an unknown one
			ch := 0x4000 + r.Intn(np)
			if r.Chance(1, 5) {
				ch = r.PickInt([]int{0x4100, 0x7FFF, 0x5000})
			}
			o := Op{Actor: "srv", Kind: "srv_chandata", At: g, A: OpArgs{Chan: ch, Len: r.Range(9, 300)}}
			if r.Chance(1, 4) {
				// payloads that look like something else: whatever is inside a ChannelData frame
				// or a DATA attribute is the application's
				o.A.Content = r.Pick([]string{"stunlike", "stunvalid", "chanlike", "cookie0"})
				o.A.Len = r.PickInt([]int{16, 20, 24, 100}) // (long enough to stay unique: the oracle tells payloads apart by their bytes)
			}
			if r.Chance(1, 8) {
				o.A.Flags = []string{"stranger"}
			}
			p.Ops = append(p.Ops, o)
		case w < 82:
			p.Ops = append(p.Ops, Op{Actor: "app", Kind: "set_deadline", At: g, A: OpArgs{DurNS: r.PickI64([]int64{1, ms, 500 * ms, 3 * sec, 60 * sec, -sec})}})
			if r.Chance(1, 3) {
				// a datagram is waiting when the deadline has passed: the read fails all the same
				p.Ops = append(p.Ops, Op{Actor: "srv", Kind: "srv_data", At: gap(int64(r.Range(1, 50)) * ms), A: OpArgs{Peer: peer, Len: r.Range(9, 100)}})
				p.Ops = append(p.Ops, Op{Actor: "app", Kind: "readfrom", At: gap(int64(r.Range(100, 900)) * ms)})
			}
		case w < 86:
			// burst larger than the read queue while nobody reads
			for k := 0; k < r.PickInt([]int{50, 1100}); k++ {
				p.Ops = append(p.Ops, Op{Actor: "srv", Kind: "srv_data", At: gap(1000), A: OpArgs{Peer: peer, Len: 12}})
			}
		case w < 90 && p.Cfg.Extra["stream"] != 1:
			p.Ops = append(p.Ops, Op{Actor: "srv", Kind: "srv_raw", At: g, A: OpArgs{Raw: "0001000000000000"}})
		default:
			p.Ops = append(p.Ops, Op{Actor: "app", Kind: "wait", At: g})
		}
	}
	if r.Chance(1, 3) {
		p.Ops = append(p.Ops, Op{Actor: "app", Kind: "close_relay", At: gap(int64(r.Range(1, 3000)) * ms)})
		if r.Chance(1, 2) {
			p.Ops = append(p.Ops, Op{Actor: "app", Kind: "readfrom", At: gap(100 * ms)})
		}
	}
	p.Ops = append(p.Ops, Op{Actor: "app", Kind: "bind_txn", At: gap(2 * sec), A: OpArgs{Flags: []string{"probe"}}})
	if r.Chance(1, 5) {
		cls := r.Pick([]string{"log:*", "lock", "rlock", "unlock", "sock:client:WriteTo"})
		if p.Cfg.Extra["stream"] == 1 && cls == "sock:client:WriteTo" {
			cls = "sock:client:Write"
		}
		p.Stalls = append(p.Stalls, Stall{M: Match{Class: cls, Args: "*", Nth: r.Range(1, 40)}, ParkNS: r.PickI64([]int64{0, 1, ms, 250 * ms, 3 * sec})})
	} else if r.Chance(1, 3) {
		// directed: one particular application call is parked at one of its first seams and the
		// calls (and server messages) after it are squeezed into the park
		var idx []int
		for i, o := range p.Ops {
			if i > 0 && i+1 < len(p.Ops) && (o.Kind == "writeto" || o.Kind == "readfrom" || o.Kind == "close_relay" || o.Kind == "set_deadline") {
				idx = append(idx, i)
			}
		}
		if len(idx) > 0 {
			i := idx[r.Intn(len(idx))]
			cls := r.Pick([]string{"lock", "rlock", "unlock", "runlock", "log:*", "sock:client:WriteTo"})
			if p.Cfg.Extra["stream"] == 1 && (cls == "sock:client:WriteTo" || r.Chance(1, 3)) {
				cls = "sock:client:Write" // over a stream the socket seam is the connection's Write
			}
			park := r.PickI64([]int64{ms, 50 * ms, 700 * ms, 3 * sec})
			p.Stalls = append(p.Stalls, Stall{M: Match{Class: cls, Args: "*", Nth: r.Range(1, 6)}, ParkNS: park, AfterOp: i + 1})
			for j, k := i+1, r.Range(1, 3); j < len(p.Ops) && k > 0; j, k = j+1, k-1 {
				if p.Ops[j].At.GapNS > park/4 {
					p.Ops[j].At = gap(park / 4)
				}
			}
			p.Flavor += "+directed"
		}
	}
	p.QuietNS = 20 * sec
}
