package sim

import (
	"encoding/binary"
	"fmt"
	"net"
	"time"

	"github.com/pion/stun/v3"
)

// Independent (pion/stun only) encoders/decoders for the TURN attributes the simulator and
// the oracles need. internal/proto is deliberately not used here: it is code under test.

const (
	attrChannelNumber   = stun.AttrType(0x000C)
	attrLifetime        = stun.AttrType(0x000D)
	attrXORPeerAddress  = stun.AttrType(0x0012)
	attrData            = stun.AttrType(0x0013)
	attrXORRelayedAddr  = stun.AttrType(0x0016)
	attrReqAddrFamily   = stun.AttrType(0x0017)
	attrEvenPort        = stun.AttrType(0x0018)
	attrReqTransport    = stun.AttrType(0x0019)
	attrDontFragment    = stun.AttrType(0x001A)
	attrReservationTok  = stun.AttrType(0x0022)
	attrConnectionID    = stun.AttrType(0x002A)
	methodConnect       = stun.Method(0x000a)
	methodConnBind      = stun.Method(0x000b)
	methodConnAttempt   = stun.Method(0x000c)
)

type rawAttr struct {
	t stun.AttrType
	v []byte
}

func (a rawAttr) AddTo(m *stun.Message) error { m.Add(a.t, a.v); return nil }

func aLifetime(sec uint32) stun.Setter {
	v := make([]byte, 4)
	binary.BigEndian.PutUint32(v, sec)
	return rawAttr{attrLifetime, v}
}

func aChannel(n uint16) stun.Setter {
	v := make([]byte, 4)
	binary.BigEndian.PutUint16(v, n)
	return rawAttr{attrChannelNumber, v}
}

func aReqTransport(proto byte) stun.Setter { return rawAttr{attrReqTransport, []byte{proto, 0, 0, 0}} }
func aReqFamily(f byte) stun.Setter       { return rawAttr{attrReqAddrFamily, []byte{f, 0, 0, 0}} }
func aData(b []byte) stun.Setter           { return rawAttr{attrData, b} }
func aConnID(id uint32) stun.Setter {
	v := make([]byte, 4)
	binary.BigEndian.PutUint32(v, id)
	return rawAttr{attrConnectionID, v}
}

type xorAddr struct {
	t    stun.AttrType
	ip   net.IP
	port int
}

func (a xorAddr) AddTo(m *stun.Message) error {
	x := stun.XORMappedAddress{IP: a.ip, Port: a.port}
	return x.AddToAs(m, a.t)
}

func aPeer(ip net.IP, port int) stun.Setter { return xorAddr{attrXORPeerAddress, ip, port} }

// mappedPeer encodes an IPv4 peer address in its IPv4-mapped IPv6 notation (family 0x02,
// ::ffff:a.b.c.d) - pion/stun's own encoder always shortens that to family 0x01, so a raw
// client is needed to put it on the wire. The transaction id must be set before.
type mappedPeer struct {
	ip   net.IP
	port int
}

func (a mappedPeer) AddTo(m *stun.Message) error {
	ip := a.ip.To16()
	v := make([]byte, 20)
	v[1] = 0x02
	binary.BigEndian.PutUint16(v[2:4], uint16(a.port)^0x2112)
	mask := append([]byte{0x21, 0x12, 0xA4, 0x42}, m.TransactionID[:]...)
	for i := 0; i < 16; i++ {
		v[4+i] = ip[i] ^ mask[i]
	}
	m.Add(attrXORPeerAddress, v)
	return nil
}

// peerAttr: the XOR-PEER-ADDRESS of an operation; flag "mapped" asks for the IPv4-mapped notation.
func peerAttr(op *Op, ip net.IP, port int) stun.Setter {
	if hasFlag(op, "mapped") && ip.To4() != nil {
		return mappedPeer{ip, port}
	}
	return aPeer(ip, port)
}

func getXORAddr(m *stun.Message, t stun.AttrType) (*net.UDPAddr, bool) {
	var x stun.XORMappedAddress
	if err := x.GetFromAs(m, t); err != nil {
		return nil, false
	}
	return &net.UDPAddr{IP: x.IP, Port: x.Port}, true
}

// allXORAddrs returns every attribute of type t, decoded.
func allXORAddrs(m *stun.Message, t stun.AttrType) (out []*net.UDPAddr, bad bool) {
	for _, a := range m.Attributes {
		if a.Type != t {
			continue
		}
		tmp := &stun.Message{TransactionID: m.TransactionID}
		tmp.Add(t, a.Value)
		var x stun.XORMappedAddress
		if err := x.GetFromAs(tmp, t); err != nil {
			bad = true
			continue
		}
		out = append(out, &net.UDPAddr{IP: x.IP, Port: x.Port})
	}
	return out, bad
}

func getU32(m *stun.Message, t stun.AttrType) (uint32, bool) {
	v, err := m.Get(t)
	if err != nil || len(v) != 4 {
		return 0, false
	}
	return binary.BigEndian.Uint32(v), true
}

func getChannel(m *stun.Message) (uint16, bool) {
	v, err := m.Get(attrChannelNumber)
	if err != nil || len(v) != 4 {
		return 0, false
	}
	return binary.BigEndian.Uint16(v), true
}

func getErrCode(m *stun.Message) int {
	var e stun.ErrorCodeAttribute
	if err := e.GetFrom(m); err != nil {
		return -1
	}
	return int(e.Code)
}

// parseChannelData decodes a datagram-form ChannelData message (RFC 5766 11.4) independently.
func parseChannelData(b []byte) (num uint16, data []byte, ok bool) {
	if len(b) < 4 {
		return 0, nil, false
	}
	num = binary.BigEndian.Uint16(b[0:2])
	l := int(binary.BigEndian.Uint16(b[2:4]))
	if num < 0x4000 || num > 0x7FFF || l > len(b)-4 {
		return num, nil, false
	}
	return num, b[4 : 4+l], true
}

func buildChannelData(num uint16, data []byte, pad bool) []byte {
	b := make([]byte, 4, 4+len(data)+3)
	binary.BigEndian.PutUint16(b[0:2], num)
	binary.BigEndian.PutUint16(b[2:4], uint16(len(data)))
	b = append(b, data...)
	if pad {
		for len(b)%4 != 0 {
			b = append(b, 0)
		}
	}
	return b
}

func methodName(m stun.Method) string {
	switch m {
	case stun.MethodBinding:
		return "binding"
	case stun.MethodAllocate:
		return "allocate"
	case stun.MethodRefresh:
		return "refresh"
	case stun.MethodSend:
		return "send"
	case stun.MethodData:
		return "data"
	case stun.MethodCreatePermission:
		return "createperm"
	case stun.MethodChannelBind:
		return "chanbind"
	case methodConnect:
		return "connect"
	case methodConnBind:
		return "connbind"
	case methodConnAttempt:
		return "connattempt"
	}
	return fmt.Sprintf("m%x", uint16(m))
}

func className(c stun.MessageClass) string {
	switch c {
	case stun.ClassRequest:
		return "req"
	case stun.ClassIndication:
		return "ind"
	case stun.ClassSuccessResponse:
		return "ok"
	case stun.ClassErrorResponse:
		return "err"
	}
	return "?"
}

// classifyWire names a datagram: "allocate-req", "refresh-ok", "send-ind", "chandata", "raw".
func classifyWire(b []byte) string {
	if len(b) >= 20 && stun.IsMessage(b) {
		t := binary.BigEndian.Uint16(b[0:2])
		var mt stun.MessageType
		mt.ReadValue(t)
		return methodName(mt.Method) + "-" + className(mt.Class)
	}
	if _, _, ok := parseChannelData(b); ok {
		return "chandata"
	}
	return "raw"
}

func init() { Classify = classifyWire }

func decodeSTUN(b []byte) (*stun.Message, bool) {
	if !stun.IsMessage(b) {
		return nil, false
	}
	m := &stun.Message{Raw: append([]byte(nil), b...)}
	if err := m.Decode(); err != nil {
		return nil, false
	}
	return m, true
}

func ipFamily(ip net.IP) int {
	if ip.To4() != nil {
		return 4
	}
	return 6
}

func mustUDPAddr(s string) *net.UDPAddr {
	host, port, err := net.SplitHostPort(s)
	if err != nil {
		Fatalf("bad address %q: %v", s, err)
	}
	ip := net.ParseIP(host)
	if ip == nil {
		Fatalf("bad ip %q", s)
	}
	var p int
	fmt.Sscanf(port, "%d", &p)
	return &net.UDPAddr{IP: ip, Port: p}
}

func ustr(a *net.UDPAddr) string { return akey(a.IP, a.Port) }

func secDur(s int) time.Duration { return time.Duration(s) * time.Second }

// stripAfterMI returns msg as an agent has to read it: without the attributes that follow
// MESSAGE-INTEGRITY (a FINGERPRINT directly behind it excepted). Raw stays what was received.
func stripAfterMI(msg *stun.Message) *stun.Message {
	cut := -1
	for i, a := range msg.Attributes {
		if a.Type == stun.AttrMessageIntegrity {
			cut = i + 1
			break
		}
	}
	if cut < 0 || cut == len(msg.Attributes) {
		return msg
	}
	if cut+1 == len(msg.Attributes) && msg.Attributes[cut].Type == stun.AttrFingerprint {
		return msg
	}
	out := *msg
	out.Attributes = append(stun.Attributes(nil), msg.Attributes[:cut]...)
	return &out
}

// hasXORAddr: msg carries an attribute t whose (XOR-decoded) address has this IP.
func hasXORAddr(msg *stun.Message, t stun.AttrType, ip net.IP) bool {
	as, _ := allXORAddrs(msg, t)
	for _, a := range as {
		if a.IP.Equal(ip) {
			return true
		}
	}
	return false
}
