package sim

import (
	"reflect"
	"fmt"
	"net"
	"strings"
	"testing"

	"github.com/pion/turn/v5"
)

// GenWorld (W-gen): the three bundled relay address generators over simnet's transport.Net
// with a scripted random source, injected bind failures and fill/drain histories.
type GenWorld struct {
	K    *Kernel
	P    *Plan
	Net  *Net
	T    *SimTransport
	gen  turn.RelayAddressGenerator
	gen2 turn.RelayAddressGenerator // a second instance with the same configuration (one per ListenerConfig is the usual set-up)
	kind string
	min, max int
	relayIP net.IP
	rand *scriptRand
	live []*genObj
	closed []*genObj // closed once by the plan; may be closed again
	opIdx int
	busy bool
	done bool
	prev int64
	results int
}

type genObj struct {
	pc   net.PacketConn
	ln   net.Listener
	port int
	net  string
}

type scriptRand struct {
	script []int
	i      int
	r      *RNG
	Calls  int
}

func (s *scriptRand) Intn(n int) int {
	s.Calls++
	if s.i < len(s.script) {
		v := s.script[s.i]
		s.i++
		if v < 0 {
			return n - 1
		}
		return v % n
	}
	return s.r.Intn(n)
}
func (s *scriptRand) Uint32() uint32 { return uint32(s.r.U64()) }
func (s *scriptRand) Uint64() uint64 { return s.r.U64() }
func (s *scriptRand) GenerateString(n int, runes string) string {
	b := make([]byte, n)
	for i := range b {
		b[i] = runes[s.r.Intn(len(runes))]
	}
	return string(b)
}

func (w *GenWorld) viol(class string, key map[string]string, format string, args ...any) {
	w.K.Violate(&Violation{Property: "C20", Class: class, Key: key, Detail: fmt.Sprintf(format, args...)})
}

func (w *GenWorld) openRelaySocks() []*SockInfo {
	var out []*SockInfo
	for _, s := range w.Net.OpenSockets() {
		if s.Role == "relay" {
			out = append(out, s)
		}
	}
	return out
}

func (w *GenWorld) start() {
	cfg := w.P.Cfg
	w.T = &SimTransport{N: w.Net, Role: "relay", Owner: "gen", IP4: net.ParseIP("10.0.0.5"), IP6: net.ParseIP("fd00::5")}
	w.relayIP = net.ParseIP(cfg.RelayIP4)
	w.rand = &scriptRand{r: NewRNG(Mix(w.P.Seed, uint64(w.P.Run), 0x20))}
	addr := cfg.ListenerIP
	switch {
	case strings.HasPrefix(cfg.RelayGen, "range:"):
		fmt.Sscanf(cfg.RelayGen, "range:%d-%d", &w.min, &w.max)
		w.kind = "range"
		w.gen = &turn.RelayAddressGeneratorPortRange{RelayAddress: w.relayIP, MinPort: uint16(w.min), MaxPort: uint16(w.max), MaxRetries: int(cfg.Extra["max_retries"]),
			Rand: w.rand, Address: addr, Net: w.T}
	case cfg.RelayGen == "none":
		w.kind = "none"
		w.gen = &turn.RelayAddressGeneratorNone{Address: addr, Net: w.T}
	default:
		w.kind = "static"
		w.gen = &turn.RelayAddressGeneratorStatic{RelayAddress: w.relayIP, Address: addr, Net: w.T}
	}
	if err := w.gen.Validate(); err != nil {
		w.viol("validate-failed", nil, "Validate() of a well-formed configuration failed: %v", err)
	}
	if cfg.Extra["two_gens"] == 1 {
		switch g := w.gen.(type) {
		case *turn.RelayAddressGeneratorPortRange:
			w.gen2 = &turn.RelayAddressGeneratorPortRange{RelayAddress: g.RelayAddress, MinPort: g.MinPort, MaxPort: g.MaxPort, MaxRetries: g.MaxRetries, Rand: w.rand, Address: g.Address, Net: w.T}
		case *turn.RelayAddressGeneratorNone:
			w.gen2 = &turn.RelayAddressGeneratorNone{Address: g.Address, Net: w.T}
		case *turn.RelayAddressGeneratorStatic:
			w.gen2 = &turn.RelayAddressGeneratorStatic{RelayAddress: g.RelayAddress, Address: g.Address, Net: w.T}
		}
		if err := w.gen2.Validate(); err != nil {
			w.viol("validate-failed", nil, "Validate() of a well-formed configuration failed: %v", err)
		}
	}
}

func (w *GenWorld) exec(op *Op) {
	switch op.Kind {
	case "rand":
		w.rand.script = append([]int(nil), op.A.Cuts...)
		w.rand.i = 0
	case "occupy":
		ip := w.T.IP4
		if strings.HasSuffix(op.A.S, "6") {
			ip = w.T.IP6
		}
		if strings.HasPrefix(op.A.S, "tcp") {
			_, _ = w.Net.ListenTCP("other", "ext", ip, op.A.N)
		} else {
			_, _ = w.Net.ListenUDP("other", "ext", ip, op.A.N)
		}
	case "gen_pc", "gen_ln":
		before := len(w.openRelaySocks())
		w.busy = true
		go func() {
			defer func() { w.busy = false }()
			conf := turn.AllocateListenerConfig{Network: op.A.S, UserID: "u1", Realm: "sim.realm", RequestedPort: op.A.N}
			var addr net.Addr
			var err error
			o := &genObj{net: op.A.S}
			g := w.gen
			if hasFlag(op, "g2") && w.gen2 != nil {
				g = w.gen2
				w.K.Stats.Probe("gen_second_instance")
			}
			if op.Kind == "gen_pc" {
				o.pc, addr, err = g.AllocatePacketConn(conf)
			} else {
				o.ln, addr, err = g.AllocateListener(conf)
			}
			w.results++
			w.judge(op, o, addr, err, before)
		}()
	case "gen_reclose":
		// Close of an object that is closed already (a deferred Close after an explicit one): legal
		// for every net.Listener and net.PacketConn, and nobody else's business - the port may
		// have a new owner by now
		if len(w.closed) > 0 {
			o := w.closed[op.A.N%len(w.closed)]
			w.K.Stats.Probe("gen_close_again")
			w.busy = true
			go func() {
				defer func() { w.busy = false }()
				if o.pc != nil {
					_ = o.pc.Close()
				}
				if o.ln != nil {
					_ = o.ln.Close()
				}
			}()
		}
	case "gen_close":
		if len(w.live) > 0 {
			i := op.A.N % len(w.live)
			o := w.live[i]
			w.live = append(w.live[:i], w.live[i+1:]...)
			w.closed = append(w.closed, o)
			w.busy = true
			go func() {
				defer func() { w.busy = false }()
				if o.pc != nil {
					_ = o.pc.Close()
				}
				if o.ln != nil {
					_ = o.ln.Close()
				}
			}()
		}
	}
}

func (w *GenWorld) judge(op *Op, o *genObj, addr net.Addr, err error, before int) {
	after := w.openRelaySocks()
	if err != nil {
		if len(after) != before {
			w.viol("dirty-failure", nil, "%s failed (%v) but %d relay sockets are open, %d before the call", op.Kind, err, len(after), before)
		}
		w.K.Stats.Probe("gen_failed")
		return
	}
	var ip net.IP
	port := 0
	switch a := addr.(type) {
	case *net.UDPAddr:
		ip, port = a.IP, a.Port
	case *net.TCPAddr:
		ip, port = a.IP, a.Port
	default:
		w.viol("wrong-ip", nil, "advertised address has type %T", addr)
		return
	}
	// what did simnet really bind for the returned object?
	var bound *net.UDPAddr
	if s, ok := o.pc.(*UDPSock); ok && s != nil {
		bound = s.bound
	}
	if l := simListenerOf(o.ln); l != nil {
		bound = &net.UDPAddr{IP: l.Bound.IP, Port: l.Bound.Port}
	}
	if bound == nil {
		w.viol("wrong-port", kv("why", "not-a-socket"), "returned object is not a bound simnet socket")
		return
	}
	if len(after) != before+1 {
		w.viol("dirty-failure", kv("why", "extra-sockets"), "%s succeeded but the number of open relay sockets went from %d to %d", op.Kind, before, len(after))
	}
	if port != bound.Port {
		w.viol("wrong-port", kv("why", "advertised-not-bound"), "advertised port %d, socket is bound to %d", port, bound.Port)
	}
	if op.A.N != 0 && port != op.A.N {
		w.viol("wrong-port", kv("why", "not-requested"), "requested port %d, advertised %d", op.A.N, port)
	}
	if w.kind == "range" && op.A.N == 0 && (port < w.min || port > w.max) {
		w.viol("out-of-range", nil, "port %d outside [%d, %d]", port, w.min, w.max)
	}
	wantIP := w.relayIP
	if w.kind == "none" {
		wantIP = bound.IP
	}
	if !ip.Equal(wantIP) {
		w.viol("wrong-ip", nil, "advertised IP %v, expected %v", ip, wantIP)
	}
	fam6 := strings.HasSuffix(op.A.S, "6")
	if (bound.IP.To4() == nil) != fam6 {
		w.viol("wrong-ip", kv("why", "family"), "network %s but the socket is bound to %v", op.A.S, bound.IP)
	}
	for _, x := range w.live {
		if x.port == port && x.net[:3] == op.A.S[:3] && strings.HasSuffix(x.net, "6") == fam6 {
			w.viol("shared-port", nil, "port %d handed out while another live object of this server's generators holds it", port)
		}
	}
	o.port = port
	w.live = append(w.live, o)
	w.K.Stats.Probe("gen_ok")
}

func (w *GenWorld) scheduleNext() {
	if w.opIdx >= len(w.P.Ops) {
		w.K.At(w.K.Now()+sec, "final", func() {
			for _, o := range w.live {
				if o.pc != nil {
					oo := o.pc
					go func() { _ = oo.Close() }()
				}
				if o.ln != nil {
					oo := o.ln
					go func() { _ = oo.Close() }()
				}
			}
			w.K.At(w.K.Now()+sec, "done", func() { w.done = true })
		})
		return
	}
	op := &w.P.Ops[w.opIdx]
	w.opIdx++
	w.K.At(w.K.Now()+ms+op.At.GapNS, fmt.Sprintf("op:%d:%s", op.ID, op.Kind), func() {
		w.K.Stats.Op(op.Kind)
		w.K.OpIssued(op.ID)
		w.exec(op)
		w.scheduleNext()
	})
}

func runGenWorld(t *testing.T, k *Kernel, p *Plan, rec *RunRecord) {
	w := &GenWorld{K: k, P: p}
	w.Net = NewNet(k)
	w.Net.Obs = NopObserver{}
	w.start()
	k.At(k.Now()+ms, "begin", w.scheduleNext)
	reason := k.Drive(100000, nil, func() bool { return w.done })
	fillRecord(rec, k, reason)
	rec.Requests = w.results + 3
	rec.States = w.rand.Calls
}

// simListenerOf: the simnet listener behind what a generator returned - the listener itself, or
// one a wrapper struct embeds as its net.Listener (a generator may keep books on Close).
func simListenerOf(ln net.Listener) *TCPListener {
	for depth := 0; ln != nil && depth < 4; depth++ {
		if l, ok := ln.(*TCPListener); ok {
			return l
		}
		v := reflect.ValueOf(ln)
		for v.Kind() == reflect.Pointer || v.Kind() == reflect.Interface {
			if v.IsNil() {
				return nil
			}
			v = v.Elem()
		}
		if v.Kind() != reflect.Struct {
			return nil
		}
		f := v.FieldByName("Listener")
		if !f.IsValid() || !f.CanInterface() {
			return nil
		}
		inner, ok := f.Interface().(net.Listener)
		if !ok {
			return nil
		}
		ln = inner
	}
	return nil
}
