package sim

// addFaults decorates a server-world plan with network faults, socket errors and stalls
// (swarm style: each kind is enabled per plan with its own probability). level 0 leaves the
// plan fault-free - there the reference model has zero uncertainty.
func addFaults(p *Plan, r *RNG, level int) {
	if level <= 0 {
		return
	}
	p.Flavor += "+faults"
	flows := []string{}
	for _, c := range p.Clients {
		flows = append(flows, c.ID+">srv", "srv>"+c.ID)
	}
	kinds := []string{"*", "allocate-req", "refresh-req", "createperm-req", "chanbind-req", "send-ind", "chandata", "allocate-ok", "refresh-ok", "createperm-ok", "chanbind-ok", "data-ind"}
	if r.Chance(1, 2) {
		n := r.Range(1, 2+level)
		for i := 0; i < n; i++ {
			do := r.Pick([]string{"drop", "dup", "dup", "delay", "delay"})
			f := NetFault{M: Match{Flow: r.Pick(flows), What: r.Pick(kinds), Nth: r.Range(1, 4)}, Do: do}
			if do == "delay" {
				f.Arg = r.PickI64([]int64{1, ms, 100 * ms, 3 * sec, 61 * sec})
			}
			p.NetFaults = append(p.NetFaults, f)
		}
	}
	if r.Chance(1, 3) {
		// peer-side network
		p.NetFaults = append(p.NetFaults, NetFault{M: Match{Flow: "p*", What: "*", Nth: r.Range(1, 3)}, Do: r.Pick([]string{"drop", "dup", "delay"}), Arg: 50 * ms})
	}
	if r.Chance(1, 2) {
		n := r.Range(1, 1+level)
		for i := 0; i < n; i++ {
			cls := r.Pick([]string{"cb:OnPermissionCreated", "cb:OnPermissionDeleted", "cb:OnAllocationCreated", "cb:OnAllocationDeleted", "cb:OnChannelCreated",
				"cb:OnChannelDeleted", "cb:OnAuth", "cb:Auth", "cb:Permission", "cb:AllocatePacketConn", "log:*", "log:*", "sock:listener:WriteTo", "sock:relay:WriteTo",
				"sock:relay:ReadFrom", "sock:listener:ReadFrom", "sock:relay:Close", "lock", "lock", "rlock", "unlock", "runlock"})
			nth := r.Range(1, 6)
			if cls == "log:*" || cls == "lock" || cls == "rlock" || cls == "unlock" || cls == "runlock" {
				nth = r.Range(1, 60)
			}
			d := r.PickI64([]int64{0, 1, ms, sec, 5 * sec, 61 * sec, 301 * sec, 601 * sec})
			if r.Chance(1, 4) && p.Cfg.PermTimeoutS <= 3600 {
				d = int64(p.Cfg.PermTimeoutS)*sec + 1
			}
			p.Stalls = append(p.Stalls, Stall{M: Match{Class: cls, Args: "*", Nth: nth}, ParkNS: d})
		}
	}
	if r.Chance(1, 5) {
		op := r.Pick([]string{"ReadFrom", "WriteTo", "WriteTo"})
		p.IOFaults = append(p.IOFaults, IOFault{M: Match{Sock: "relay", Op: op, Nth: r.Range(1, 4)}, Do: "error"})
	}
	if r.Chance(1, 8) {
		p.IOFaults = append(p.IOFaults, IOFault{M: Match{Sock: "listener", Op: "WriteTo", Nth: r.Range(1, 8)}, Do: "error"})
	}
	if r.Chance(1, 12) {
		p.IOFaults = append(p.IOFaults, IOFault{M: Match{Sock: "relay", Op: "Listen", Nth: r.Range(1, 3)}, Do: "error"})
	}
}

// faultLevel draws how faulty a plan is: a fixed share stays fault-free.
func faultLevel(r *RNG) int {
	switch r.Intn(10) {
	case 0, 1, 2, 3, 4:
		return 0
	case 5, 6, 7:
		return 1
	}
	return 3
}
