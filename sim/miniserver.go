package sim

import (
	"fmt"
	"net"
	"strings"

	"github.com/pion/turn/v5"
	"github.com/pion/turn/v5/internal/allocation"
	"github.com/pion/turn/v5/internal/server"
)

// miniServer drives the real request handlers (internal/server.HandleRequest) over a real
// allocation.Manager with a nonce manager of the plan's choice - the handler-level layer of
// C03, which turn.Server does not expose (it always uses the 12-byte short nonce).
type miniServer struct {
	w     *SrvWorld
	am    *allocation.Manager
	nonce server.NonceManager
	other server.NonceManager // a second instance: its nonces must be refused
	sock  *UDPSock
}

func makeNonce(kind string) server.NonceManager {
	var nm server.NonceManager
	var err error
	switch {
	case kind == "long":
		nm, err = server.NewNonceHash()
	case strings.HasPrefix(kind, "short:"):
		var n int
		fmt.Sscanf(kind, "short:%d", &n)
		nm, err = server.NewShortNonceHash(n)
	default:
		nm, err = server.NewShortNonceHash(0)
	}
	if err != nil {
		Fatalf("nonce manager %q: %v", kind, err)
	}
	return nm
}

func newMiniServer(w *SrvWorld, sc turn.ServerConfig, sock *UDPSock, ph turn.PermissionHandler) *miniServer {
	lg := w.LF.NewLogger("turn")
	am, err := allocation.NewManager(allocation.ManagerConfig{
		AllocatePacketConn: w.Gen.AllocatePacketConn, AllocateListener: w.Gen.AllocateListener, AllocateConn: w.Gen.AllocateConn,
		PermissionHandler: ph, EventHandler: sc.EventHandler, LeveledLogger: lg,
	})
	if err != nil {
		Fatalf("NewManager: %v", err)
	}
	m := &miniServer{w: w, am: am, sock: sock, nonce: makeNonce(w.P.Cfg.Nonce), other: makeNonce(w.P.Cfg.Nonce)}
	def := func(v, d int) int {
		if v == 0 {
			return d
		}
		return v
	}
	cfg := w.P.Cfg
	mtu := def(cfg.InboundMTU, 1600)
	go func() {
		buf := make([]byte, mtu)
		for {
			n, addr, err := sock.ReadFrom(buf)
			if err != nil {
				break
			}
			if n >= mtu {
				continue
			}
			err = server.HandleRequest(server.Request{
				Conn: sock, SrcAddr: addr, Buff: buf[:n], Log: lg, AuthHandler: sc.AuthHandler, QuotaHandler: sc.QuotaHandler, Realm: sc.Realm,
				AllocationManager: am, NonceHash: m.nonce,
				ChannelBindTimeout: secDur(def(cfg.ChanTimeoutS, 600)), PermissionTimeout: secDur(def(cfg.PermTimeoutS, 300)),
				AllocationLifetime: secDur(def(cfg.AllocLifeS, 600)), StrictAddressFamily: cfg.StrictFamily,
			})
			if err != nil && sc.EventHandler.OnAllocationError != nil {
				sc.EventHandler.OnAllocationError(addr, sock.LocalAddr(), "UDP", err.Error())
			}
		}
		_ = am.Close()
	}()
	return m
}

func (m *miniServer) Close() { _ = m.sock.Close() }

var _ net.Addr = (*net.UDPAddr)(nil)
