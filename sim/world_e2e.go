package sim

import (
	"os"
	"runtime"
	"bytes"
	"fmt"
	"net"
	"strconv"
	"strings"
	"time"

	"github.com/pion/stun/v3"
	"github.com/pion/turn/v5"
	"github.com/pion/turn/v5/internal/client"
)

// Real clients inside the server world (W-e2e): turn.Client + its relayed socket against the
// real turn.Server of SrvWorld, scripted peers, application actors.

type RealClient struct {
	W      *SrvWorld
	Spec   ClientSpec
	Addr   *net.UDPAddr
	sock   *UDPSock
	tconn  *TCPConn // control connection when the server listens on TCP
	Cli    *turn.Client
	Relay  net.PacketConn
	OldRelay net.PacketConn // the socket of the allocation before the current one (closed by the application)
	Err    error
	Closed bool
	ClosedAt int64
	Reads  []RecvRec
	Writes []*writeRec
	allocAt int64
	allocStart int64
	Stamp   int64
	Genuine bool
	allocDone bool
	allocEnd  int64
	TAlloc    *client.TCPAllocation // RFC 6062 allocation (flavour e2e-tcprelay)
	TConns    []*realTConn
	tcpDone   bool // end of plan reached: the application holds nothing any more
	gaps      [][2]int64 // [closed at, allocated again at]: the application closed its socket and allocated anew
}

// closedAround: at t (give or take margin) the application had no relayed socket.
func (rc *RealClient) closedAround(t, margin int64) bool {
	if rc.Closed && t >= rc.ClosedAt-margin {
		return true
	}
	for _, g := range rc.gaps {
		if t >= g[0]-margin && t <= g[1]+margin {
			return true
		}
	}
	return false
}

// sameEpoch: no close/re-allocate lies between t1 and t2 (what the first allocation was told -
// permissions, channels - the second knows nothing of).
func (rc *RealClient) sameEpoch(t1, t2 int64) bool {
	for _, g := range rc.gaps {
		if g[0] >= t1 && g[0] <= t2 {
			return false
		}
	}
	return true
}

type writeRec struct {
	T    int64
	Peer string
	Data []byte
	Err  error
	Done bool
	ToClient string // the peer is the relayed address of this real client ("@c2" in the plan)
}

// realClients: the real clients in the order of the plan (never the order of the map: what is
// started or closed in this order is part of the run).
func (w *SrvWorld) realClients() []*RealClient {
	var out []*RealClient
	for _, c := range w.P.Clients {
		if rc := w.Real[c.ID]; rc != nil {
			out = append(out, rc)
		}
	}
	return out
}

func (w *SrvWorld) startRealClient(spec ClientSpec) {
	rc := &RealClient{W: w, Spec: spec, Addr: mustUDPAddr(spec.Addr)}
	w.Real[spec.ID] = rc
	cfg := w.P.Cfg
	var s *UDPSock
	if cfg.Listener != "tcp" {
		var err error
		s, err = w.Net.ListenUDP("client", spec.ID, rc.Addr.IP, rc.Addr.Port)
		if err != nil {
			Fatalf("real client socket: %v", err)
		}
		rc.sock = s
	}
	w.lib("client-start", func() {
		var base net.PacketConn = s
		if cfg.Listener == "tcp" {
			// the client speaks TURN over a stream: its own STUNConn packetiser over simnet TCP
			<-w.started
			tc, err := w.Net.Dial("client", &net.TCPAddr{IP: rc.Addr.IP, Port: rc.Addr.Port}, &net.TCPAddr{IP: w.SrvAddr.IP, Port: w.SrvAddr.Port}, 30*time.Second)
			if err != nil {
				Fatalf("real client dial: %v", err)
			}
			w.e2eMu.Lock()
			rc.tconn = tc
			w.e2eMu.Unlock()
			base = turn.NewSTUNConn(tc)
		}
		if spec.User == "@gen" {
			// time-windowed credentials (C17), generated now with the real generator
			d := time.Duration(cfg.Extra["cred_dur_s"]) * time.Second
			var u, pw string
			var err error
			if cfg.Auth == "turnrest" {
				u, pw, err = turn.GenerateLongTermTURNRESTCredentials(cfg.Secret, "alice", d)
			} else {
				u, pw, err = turn.GenerateLongTermCredentials(cfg.Secret, d)
			}
			if err != nil {
				Fatalf("generate credentials: %v", err)
			}
			ts := u
			if i := strings.IndexByte(ts, ':'); i >= 0 {
				ts = ts[:i]
			}
			rc.Stamp, _ = strconv.ParseInt(ts, 10, 64)
			rc.Genuine = true
			switch cfg.Extra["cred_forge"] {
			case 1: // a later timestamp with the old password
				u = strconv.FormatInt(rc.Stamp+3600, 10) + u[len(ts):]
				rc.Genuine = false
			case 2: // password derived from another secret
				_, pw, _ = turn.GenerateLongTermCredentials(cfg.Secret+"x", d)
				rc.Genuine = false
			}
			spec.User, spec.Pass = u, pw
			if rc.Genuine {
				w.Mon.mu.Lock()
				w.Mon.users[u] = pw
				w.Mon.mu.Unlock()
			}
		}
		c, err := turn.NewClient(&turn.ClientConfig{
			STUNServerAddr: ustr(w.SrvAddr), TURNServerAddr: ustr(w.SrvAddr), Username: spec.User, Password: spec.Pass, Realm: cfg.Realm,
			RTO: time.Duration(cfg.RTOms) * time.Millisecond, Conn: base, LoggerFactory: w.LF,
			PermissionRefreshInterval: time.Duration(cfg.Extra["perm_refresh_s"]) * time.Second,
			Net: &SimTransport{N: w.Net, Role: "client-data", Owner: spec.ID, IP4: rc.Addr.IP, IP6: rc.Addr.IP},
		})
		if err != nil {
			Fatalf("NewClient: %v", err)
		}
		if err := c.Listen(); err != nil {
			Fatalf("Listen: %v", err)
		}
		w.e2eMu.Lock()
		rc.Cli = c
		w.e2eMu.Unlock()
	})
}

func (w *SrvWorld) execReal(rc *RealClient, op *Op) {
	w.e2eMu.Lock()
	cli, relay := rc.Cli, rc.Relay
	w.e2eMu.Unlock()
	if cli == nil {
		return
	}
	switch op.Kind {
	case "alloc":
		rc.allocStart = time.Now().Unix()
		w.e2eMu.Lock()
		again := rc.Relay != nil && rc.Closed
		closedAt := rc.ClosedAt
		w.e2eMu.Unlock()
		if rc.Relay != nil && !again {
			return
		}
		w.lib("alloc", func() {
			conn, err := cli.Allocate()
			w.e2eMu.Lock()
			if again {
				// the application allocates anew on the same client after having closed its socket
				if err != nil {
					rc.Err = err
					w.e2eMu.Unlock()
					w.K.Violate(&Violation{Property: "C14", Class: "allocate-failed", Key: kv("when", "again"), Detail: fmt.Sprintf("real client %s could not allocate again after Close: %v", rc.Spec.ID, err)})
					return
				}
				rc.gaps = append(rc.gaps, [2]int64{closedAt, w.K.Now()})
				rc.Closed = false
				rc.OldRelay = rc.Relay
				w.K.Stats.Probe("e2e_reallocated")
			}
			rc.Relay, rc.Err = conn, err
			rc.allocAt = w.K.Now()
			rc.allocDone = true
			rc.allocEnd = time.Now().Unix()
			w.e2eMu.Unlock()
			if err != nil {
				return
			}
			// the application's reader
			buf := make([]byte, 70000)
			for {
				n, from, err := conn.ReadFrom(buf)
				if err != nil {
					return
				}
				fs := ""
				if ua, ok := from.(*net.UDPAddr); ok {
					fs = ustr(ua)
				}
				w.e2eMu.Lock()
				rc.Reads = append(rc.Reads, RecvRec{T: w.K.Now(), From: fs, Data: append([]byte(nil), buf[:n]...)})
				w.e2eMu.Unlock()
			}
		})
	case "writeto":
		if relay == nil {
			return
		}
		payload := MakePayload(w.P.Seed, rc.Spec.ID, op)
		var peer *net.UDPAddr
		toClient := ""
		if strings.HasPrefix(op.A.Peer, "@") {
			// the other real client's relayed address: both ends of the path run the library
			toClient = op.A.Peer[1:]
			if peer = w.realRelayOf(toClient); peer == nil {
				return
			}
		} else {
			peer = mustUDPAddr(op.A.Peer)
		}
		wr := &writeRec{T: w.K.Now(), Peer: ustr(peer), Data: payload, ToClient: toClient}
		w.e2eMu.Lock()
		rc.Writes = append(rc.Writes, wr)
		w.e2eMu.Unlock()
		w.lib("writeto", func() {
			_, err := relay.WriteTo(payload, peer)
			w.e2eMu.Lock()
			wr.Err, wr.Done = err, true
			w.e2eMu.Unlock()
		})
	case "close_old":
		// Close, once more, of the relayed socket the application closed before it allocated
		// again (a deferred Close): it is closed already, and none of the new socket's business
		w.e2eMu.Lock()
		old := rc.OldRelay
		w.e2eMu.Unlock()
		if old != nil {
			w.K.Stats.Probe("e2e_old_socket_closed_again")
			w.lib("close-old", func() { _ = old.Close() })
		}
	case "close_relay":
		if relay == nil {
			return
		}
		w.e2eMu.Lock()
		rc.Closed, rc.ClosedAt = true, w.K.Now()
		w.e2eMu.Unlock()
		w.lib("close-relay", func() { _ = relay.Close() })
	default:
		if !w.execRealTCP(rc, op) {
			Fatalf("real client op %q", op.Kind)
		}
	}
}

// realRelayOf: the relayed address a real client obtained.
func (w *SrvWorld) realRelayOf(id string) *net.UDPAddr {
	rc := w.Real[id]
	if rc == nil {
		return nil
	}
	w.e2eMu.Lock()
	defer w.e2eMu.Unlock()
	if rc.Relay == nil {
		return nil
	}
	if ua, ok := rc.Relay.LocalAddr().(*net.UDPAddr); ok {
		return ua
	}
	return nil
}

// checkE2E (C14): every probe sent while the relayed socket was open arrived, in both
// directions; closing the socket removed the allocation.
// staleRefresh0: the allocation this client made after a Close was ended by a Refresh(lifetime
// 0) although the application has not closed it: the retransmission of the earlier Close's
// request, whose answer was lost (known finding KF-C14-2).
func (w *SrvWorld) staleRefresh0(rc *RealClient) bool {
	if len(rc.gaps) == 0 || rc.Closed {
		return false
	}
	g := rc.gaps[len(rc.gaps)-1]
	w.Mon.mu.Lock()
	defer w.Mon.mu.Unlock()
	// the server received, after the new allocation was made, an authentic Refresh with
	// LIFETIME 0 from this client - which the application, whose socket is open, never asked for
	client := ustr(rc.Addr)
	for k, rs := range w.Mon.reqs {
		if !strings.HasPrefix(k, client+"|") {
			continue
		}
		for _, r := range rs {
			if r.Method != stun.MethodRefresh || r.Auth <= 0 || r.TRecv < g[1] {
				continue
			}
			if v, ok := getU32(r.Msg, attrLifetime); ok && v == 0 {
				return true
			}
		}
	}
	return false
}

func (w *SrvWorld) checkE2E() {
	w.e2eMu.Lock()
	defer w.e2eMu.Unlock()
	horizon := func(t int64) string {
		switch {
		case t < 290*sec:
			return "first-5min"
		case t < 3500*sec:
			return "first-hour"
		}
		return "beyond-nonce-hour"
	}
	for _, rc := range w.realClients() {
		if rc.Stamp != 0 && rc.allocDone {
			// C17 end to end
			ok := rc.Err == nil
			switch {
			case !rc.Genuine && ok:
				w.K.Violate(&Violation{Property: "C17", Class: "forged-authenticates", Key: kv("mutation", "e2e"), Detail: "a forged time-windowed credential obtained an allocation"})
			case rc.Genuine && rc.allocEnd < rc.Stamp && !ok:
				w.K.Violate(&Violation{Property: "C17", Class: "rejected-before-expiry", Key: kv("kind", "e2e"), Detail: fmt.Sprintf("Allocate with a genuine credential finished %d s before its expiry and failed: %v", rc.Stamp-rc.allocEnd, rc.Err)})
			case rc.Genuine && rc.allocStart > rc.Stamp && ok:
				w.K.Violate(&Violation{Property: "C17", Class: "accepted-after-expiry", Key: kv("kind", "e2e"), Detail: fmt.Sprintf("Allocate started %d s after the credential's expiry and succeeded", rc.allocStart-rc.Stamp)})
			}
			continue
		}
		if rc.Relay == nil {
			if rc.Err != nil && len(w.K.StallIntervals()) == 0 && len(w.P.IOFaults) == 0 {
				// (the TCP-relay plans also run with stalls and socket errors: an Allocate that
				// times out behind a ten-minute stall has not failed by the library's doing)
				w.K.Violate(&Violation{Property: "C14", Class: "allocate-failed", Detail: fmt.Sprintf("real client %s could not allocate: %v", rc.Spec.ID, rc.Err)})
			}
			continue
		}
		for _, wr := range rc.Writes {
			if rc.closedAround(wr.T, 0) {
				continue
			}
			if w.partitioned(wr.T, wr.T+2*sec) {
				continue // datagrams sent into a partition are lost; what counts is that traffic flows again after it
			}
			if wr.Done && wr.Err != nil && w.partitioned(wr.T, wr.T+8*sec) {
				// two cuts close together swallowed all seven transmissions of this call's
				// CreatePermission: the property's premise (no transaction loses all of them) is gone
				continue
			}
			if !wr.Done && w.P.Cfg.Listener == "tcp" && len(w.K.StallIntervals()) == 0 && w.K.Now()-wr.T > 30*sec && !w.wedgeReported {
				// a WriteTo may wait for a stream's window; it may not wait for ever: 30 s after the
				// call nothing in the plan holds anything up any more
				w.wedgeReported = true
				if os.Getenv("VERIF_DUMP") != "" {
					buf := make([]byte, 1<<21)
					os.Stderr.Write(buf[:runtime.Stack(buf, true)])
				}
				for _, pr := range []string{"C18", "C14"} {
					w.K.Violate(&Violation{Property: pr, Class: "client-wedged", Key: kv("call", "WriteTo"),
						Detail: fmt.Sprintf("WriteTo(%s) called at %d ns has not returned %d s later: client and server each wait to write on the one stream between them and neither reads", wr.Peer, wr.T, (w.K.Now()-wr.T)/sec)})
				}
			}
			if wr.ToClient != "" {
				// client -> own relay -> the other client's relay -> the other client: arrives if the
				// other client had asked for a permission for the relay IP (by writing to this
				// one) at least 5 s before, and is still open
				dst := w.Real[wr.ToClient]
				if dst == nil || dst.Relay == nil || (dst.Closed && wr.T >= dst.ClosedAt-sec) {
					continue
				}
				permitted := false
				for _, back := range dst.Writes {
					if back.ToClient == rc.Spec.ID && back.T+5*sec <= wr.T {
						permitted = true
					}
				}
				if !permitted {
					continue
				}
				got, from := false, ""
				for _, r := range dst.Reads {
					if bytes.Equal(r.Data, wr.Data) {
						got, from = true, r.From
					}
				}
				me := ""
				if ua, ok := rc.Relay.LocalAddr().(*net.UDPAddr); ok {
					me = ustr(ua)
				}
				if !got {
					w.K.Violate(&Violation{Property: "C14", Class: "probe-lost", Key: kv("dir", "c2c", "horizon", horizon(wr.T-rc.allocAt)),
						Detail: fmt.Sprintf("payload written by %s to the relayed address of %s at %d ns (%.0f s after Allocate) was never read there (WriteTo done=%v err=%v)", rc.Spec.ID, wr.ToClient, wr.T, float64(wr.T-rc.allocAt)/1e9, wr.Done, wr.Err)})
					break
				}
				if from != me {
					w.K.Violate(&Violation{Property: "C14", Class: "probe-misattributed", Key: kv("dir", "c2c"), Detail: fmt.Sprintf("payload relayed from %s (relayed address %s) was read by %s with address %s", rc.Spec.ID, me, wr.ToClient, from)})
				}
				w.K.Stats.Probe("e2e_pair_delivered")
				continue
			}
			got := false
			for _, p := range w.Peers {
				p.mu.Lock()
				for _, r := range p.Received {
					if bytes.Equal(r.Data, wr.Data) {
						got = true
					}
				}
				p.mu.Unlock()
			}
			if !got && w.staleRefresh0(rc) {
				w.K.Violate(&Violation{Property: "C14", Class: "probe-lost", Key: kv("cause", "stale-refresh0-after-reallocate", "dir", "c2p"),
					Detail: fmt.Sprintf("payload written to %s at %d ns never reached the peer: the allocation made after Close was deleted by the retransmitted Refresh(0) of that Close (WriteTo err=%v)", wr.Peer, wr.T, wr.Err)})
				break
			}
			if !got && w.deafListenerBefore(rc, wr.T) {
				w.K.Violate(&Violation{Property: "C14", Class: "probe-lost", Key: kv("cause", "listener-deaf-while-dialling-silent-peer", "dir", "c2p"),
					Detail: fmt.Sprintf("payload written to %s at %d ns (%.0f s after Allocate) never reached the peer: before that the server dialled a host that never answers, inside the read loop this client's requests go through (WriteTo done=%v err=%v)", wr.Peer, wr.T, float64(wr.T-rc.allocAt)/1e9, wr.Done, wr.Err)})
				break
			}
			if !got {
				w.K.Violate(&Violation{Property: "C14", Class: "probe-lost", Key: kv("dir", "c2p", "horizon", horizon(wr.T-rc.allocAt)),
					Detail: fmt.Sprintf("payload written to %s at %d ns (%.0f s after Allocate) never reached the peer (WriteTo done=%v err=%v)", wr.Peer, wr.T, float64(wr.T-rc.allocAt)/1e9, wr.Done, wr.Err)})
				break
			}
		}
		for key, pl := range w.PeerProbes {
			if pl.Target != rc.Spec.ID || rc.closedAround(pl.T, sec) || w.partitioned(pl.T, pl.T+2*sec) {
				continue
			}
			got := false
			for _, r := range rc.Reads {
				if bytes.Equal(r.Data, pl.Data) {
					got = true
					if r.From != pl.From {
						w.K.Violate(&Violation{Property: "C14", Class: "probe-misattributed", Detail: fmt.Sprintf("probe %s from %s was read with address %s", key, pl.From, r.From)})
					}
				}
			}
			// a peer can reach the client only once the client has asked for a permission for it
			permitted := false
			for _, wr := range rc.Writes {
				if mustUDPAddr(wr.Peer).IP.Equal(mustUDPAddr(pl.From).IP) && wr.T+5*sec <= pl.T && rc.sameEpoch(wr.T, pl.T) && !rc.closedAround(wr.T, 0) && wr.Done && wr.Err == nil {
					permitted = true
				}
			}
			if !got && pl.Expect && permitted && w.staleRefresh0(rc) {
				w.K.Violate(&Violation{Property: "C14", Class: "probe-lost", Key: kv("cause", "stale-refresh0-after-reallocate", "dir", "p2c"),
					Detail: fmt.Sprintf("datagram %s sent by %s at %d ns was never read: the allocation made after Close was deleted by the retransmitted Refresh(0) of that Close", key, pl.From, pl.T)})
				break
			}
			if !got && pl.Expect && permitted && w.deafListenerBefore(rc, pl.T) {
				w.K.Violate(&Violation{Property: "C14", Class: "probe-lost", Key: kv("cause", "listener-deaf-while-dialling-silent-peer", "dir", "p2c"),
					Detail: fmt.Sprintf("datagram %s sent by %s to the relayed address at %d ns (%.0f s after Allocate) was never read: before that the server dialled a host that never answers, inside the read loop this client's requests go through", key, pl.From, pl.T, float64(pl.T-rc.allocAt)/1e9)})
				break
			}
			if !got && pl.Expect && permitted {
				w.K.Violate(&Violation{Property: "C14", Class: "probe-lost", Key: kv("dir", "p2c", "horizon", horizon(pl.T-rc.allocAt)),
					Detail: fmt.Sprintf("datagram %s sent by %s to the relayed address at %d ns (%.0f s after Allocate) was never read by the client", key, pl.From, pl.T, float64(pl.T-rc.allocAt)/1e9)})
				break
			}
		}
	}
}

// deafListenerBefore: on a datagram listener (one read loop for everybody) the server dialled
// the black hole after this client allocated and before t - see known finding KF-C14-3.
func (w *SrvWorld) deafListenerBefore(rc *RealClient, t int64) bool {
	if w.P.Cfg.Listener != "udp" {
		return false
	}
	w.Net.mu.Lock()
	defer w.Net.mu.Unlock()
	for _, at := range w.Net.SilentDials {
		if at > rc.allocAt && at < t {
			return true
		}
	}
	return false
}

// partitioned: some partition window of the plan overlaps [t0, t1].
func (w *SrvWorld) partitioned(t0, t1 int64) bool {
	for i := range w.P.NetFaults {
		f := &w.P.NetFaults[i]
		if f.Do == "partition" && t1 >= f.AtNS && t0 < f.AtNS+f.Arg {
			return true
		}
	}
	return false
}

type peerProbe struct {
	T      int64
	Target string
	From   string
	Data   []byte
	Expect bool
}

// afterRelayClose (C14): a few seconds after Close the server must not count the allocation.
func (w *SrvWorld) checkReleased(now int64) {
	if w.closedSrv || w.Srv == nil {
		return
	}
	w.e2eMu.Lock()
	open, closedLong := 0, 0
	for _, rc := range w.realClients() {
		if rc.Relay == nil && rc.TAlloc == nil {
			continue
		}
		if !rc.Closed {
			open++
		} else if now > rc.ClosedAt+5*sec {
			closedLong++
		} else {
			open++ // still within grace
		}
	}
	w.e2eMu.Unlock()
	if closedLong == 0 || w.releaseReported || len(w.K.StallIntervals()) > 0 {
		return // (a Refresh(0) parked behind a stall is late, not lost: the TCP-relay plans run under dense stalls too)
	}
	if held, _ := lockState(); len(held) > 0 {
		return
	}
	n := w.allocCount()
	if n > open+len(w.Clients) {
		w.releaseReported = true
		cause := "other"
		w.Mon.mu.Lock()
		for _, rc := range w.realClients() {
			if rc.Closed && w.Mon.Refresh0Err[ustr(rc.Addr)] == 438 {
				cause = "refresh0-answered-438-not-retried"
			}
		}
		w.Mon.mu.Unlock()
		w.K.Violate(&Violation{Property: "C14", Class: "not-released-on-close", Key: kv("cause", cause), Detail: fmt.Sprintf("%d s after the relayed socket was closed the server still counts %d allocations (%d sockets are open)", 5, n, open)})
	}
}
