package sim

func init() { generators["C17"] = genC17 }

func genC17(p *Plan, r *RNG) {
	if r.Chance(1, 4) {
		genC17E2E(p, r)
		return
	}
	p.World = "cred"
	p.Flavor = "handler"
	p.Cfg = Config{Realm: r.Pick([]string{"sim.realm", "pion.ly", "r"}), Secret: r.Pick([]string{"s3cret", "another-shared-secret", "x"}), LatCSns: ms, LatSPns: ms}
	kind := r.Pick([]string{"ltcred", "turnrest"})
	dur := r.PickI64([]int64{-3600 * sec, -sec, 0, sec, 2 * sec, 30 * sec, 600 * sec, 86400 * sec, 3 * 86400 * sec, 1500 * ms, 999 * ms})
	// generation at a random sub-second phase
	p.Ops = append(p.Ops, Op{Kind: "credgen", At: gap(int64(r.Range(1, 5000))*ms + int64(r.Intn(1000))*1000), A: OpArgs{S: kind, User: r.Pick([]string{"alice", "bob", "u:with:colons", ""}), DurNS: dur}})
	muts := []string{"", "", "", "user-char", "user-alpha", "pass-char", "later-stamp"}
	// coarse instants before, then every second around the expiry, then after
	n := r.Range(4, 14)
	for i := 0; i < n; i++ {
		a := OpArgs{Content: r.Pick(muts), N: r.Intn(40)}
		if r.Chance(1, 8) {
			a.S = "othersecret"
		}
		if r.Chance(1, 6) {
			a.Flags = []string{"fresh-handler"}
		}
		var g int64
		if dur > 20*sec && i < 3 {
			g = dur / 4
		} else {
			g = int64(r.Range(200, 1800)) * ms
		}
		p.Ops = append(p.Ops, Op{Kind: "credcheck", At: gap(g), A: a})
	}
}

// genC17E2E: a real client allocates through the real server with time-windowed credentials.
func genC17E2E(p *Plan, r *RNG) {
	baseSrvConfig(p, r)
	p.Flavor = "cred-e2e"
	p.Cfg.Auth = r.Pick([]string{"ltcred", "turnrest"})
	p.Cfg.Secret = "shared-secret"
	dur := r.PickI64([]int64{5, 10, 60})
	p.Cfg.Extra = map[string]int64{"cred_dur_s": dur, "cred_forge": int64(r.Intn(4))}
	p.Clients = []ClientSpec{{ID: "c1", Addr: "10.0.1.1:4000", User: "@gen", Pass: "", Kind: "real"}}
	p.Peers = []PeerSpec{{ID: "p1", Addr: "10.0.2.1:5000"}}
	off := r.PickI64([]int64{-3 * sec, -1500 * ms, 1500 * ms, 3 * sec, -dur * sec / 2})
	p.Ops = append(p.Ops, Op{Actor: "c1", Kind: "alloc", At: TimeSpec{Ref: "abs", OffNS: dur*sec + off}})
	p.Ops = append(p.Ops, Op{Kind: "wait", At: gap(3 * sec)})
	p.QuietNS = 5 * sec
}
