package sim

import "fmt"

func init() {
	generators["C17"] = genC17
	generators["C17-concurrent"] = genC17Concurrent // the free-running race passes of C17 and C18
}

// genC17Concurrent: one handler, several connections: clients of a stream listener (each served
// by a goroutine of its own) authenticate at the same instants with credentials of their own.
func genC17Concurrent(p *Plan, r *RNG) {
	baseSrvConfig(p, r)
	p.Flavor = "cred-e2e-concurrent"
	p.Cfg.Listener = "tcp"
	p.Cfg.Auth = r.Pick([]string{"ltcred", "turnrest"})
	p.Cfg.Secret = "shared-secret"
	p.Cfg.Extra = map[string]int64{"cred_dur_s": 3600, "cred_forge": 0}
	n := r.Range(2, 4)
	for i := 0; i < n; i++ {
		p.Clients = append(p.Clients, ClientSpec{ID: fmt.Sprintf("c%d", i+1), Addr: fmt.Sprintf("10.0.1.%d:%d", 1+i, 4000+i*13), User: "@gen", Pass: "", Kind: "real"})
	}
	p.Peers = []PeerSpec{{ID: "p1", Addr: "10.0.2.1:5000"}, {ID: "p2", Addr: "10.0.2.2:5017"}}
	for i := 0; i < n; i++ {
		g := gap(0)
		if i == 0 {
			g = gap(sec)
		}
		p.Ops = append(p.Ops, Op{Actor: p.Clients[i].ID, Kind: "alloc", At: g})
	}
	p.Ops = append(p.Ops, Op{Kind: "wait", At: gap(2 * sec)})
	for k := r.Range(2, 5); k > 0; k-- {
		for i := 0; i < n; i++ {
			g := gap(0)
			if i == 0 {
				g = gap(int64(r.Range(100, 900)) * ms)
			}
			p.Ops = append(p.Ops, Op{Actor: p.Clients[i].ID, Kind: "writeto", At: g, A: OpArgs{Peer: p.Peers[k%2].Addr, Len: 20 + k}})
		}
	}
	p.Ops = append(p.Ops, Op{Kind: "wait", At: gap(3 * sec)})
	p.QuietNS = 5 * sec
}

func genC17(p *Plan, r *RNG) {
	if r.Chance(1, 40) {
		genC17Concurrent(p, r)
		return
	}
	if r.Chance(1, 4) {
		genC17E2E(p, r)
		return
	}
	p.World = "cred"
	p.Flavor = "handler"
	p.Cfg = Config{Realm: r.Pick([]string{"sim.realm", "pion.ly", "r"}), Secret: r.Pick([]string{"s3cret", "another-shared-secret", "x"}), LatCSns: ms, LatSPns: ms}
	kind := r.Pick([]string{"ltcred", "turnrest"})
	dur := r.PickI64([]int64{-3600 * sec, -sec, 0, sec, 2 * sec, 30 * sec, 600 * sec, 86400 * sec, 3 * 86400 * sec, 1500 * ms, 999 * ms})
	// generation at a random sub-second phase
	p.Ops = append(p.Ops, Op{Kind: "credgen", At: gap(int64(r.Range(1, 5000))*ms + int64(r.Intn(1000))*1000), A: OpArgs{S: kind, User: r.Pick([]string{"alice", "bob", "u:with:colons", ""}), DurNS: dur}})
	muts := []string{"", "", "", "user-char", "user-alpha", "pass-char", "later-stamp"}
	// coarse instants before, then every second around the expiry, then after
	n := r.Range(4, 14)
	for i := 0; i < n; i++ {
		a := OpArgs{Content: r.Pick(muts), N: r.Intn(40)}
		if r.Chance(1, 8) {
			a.S = "othersecret"
		}
		if r.Chance(1, 6) {
			a.Flags = []string{"fresh-handler"}
		}
		var g int64
		if dur > 20*sec && i < 3 {
			g = dur / 4
		} else {
			g = int64(r.Range(200, 1800)) * ms
		}
		p.Ops = append(p.Ops, Op{Kind: "credcheck", At: gap(g), A: a})
	}
}

// genC17E2E: a real client allocates through the real server with time-windowed credentials.
func genC17E2E(p *Plan, r *RNG) {
	baseSrvConfig(p, r)
	p.Flavor = "cred-e2e"
	p.Cfg.Auth = r.Pick([]string{"ltcred", "turnrest"})
	p.Cfg.Secret = "shared-secret"
	dur := r.PickI64([]int64{5, 10, 60})
	p.Cfg.Extra = map[string]int64{"cred_dur_s": dur, "cred_forge": int64(r.Intn(4))}
	p.Clients = []ClientSpec{{ID: "c1", Addr: "10.0.1.1:4000", User: "@gen", Pass: "", Kind: "real"}}
	p.Peers = []PeerSpec{{ID: "p1", Addr: "10.0.2.1:5000"}}
	off := r.PickI64([]int64{-3 * sec, -1500 * ms, 1500 * ms, 3 * sec, -dur * sec / 2})
	p.Ops = append(p.Ops, Op{Actor: "c1", Kind: "alloc", At: TimeSpec{Ref: "abs", OffNS: dur*sec + off}})
	p.Ops = append(p.Ops, Op{Kind: "wait", At: gap(3 * sec)})
	p.QuietNS = 5 * sec
}
