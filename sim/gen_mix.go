package sim

import "fmt"

func init() {
	generators["C01"] = func(p *Plan, r *RNG) { withRace(p, r, 6, func() { genMix(p, r, "C01") }) }
	generators["C02"] = func(p *Plan, r *RNG) {
		if r.Chance(1, 12) {
			// inbound connections of TCP allocations are announced to their owner only
			genC16TwoAccepts(p, r)
			return
		}
		withRace(p, r, 6, func() { genMix(p, r, "C02") })
	}
	generators["C04"] = func(p *Plan, r *RNG) {
		if r.Chance(1, 8) {
			// TCP allocations of several clients with peers in common: a Connect is answered from
			// the state of the allocation it arrived on (cross-talk what=connect)
			genC16(p, r)
			return
		}
		if r.Chance(1, 6) {
			genC04XL(p, r)
			return
		}
		genMix(p, r, "C04")
	}
	generators["C05"] = func(p *Plan, r *RNG) {
		if r.Chance(1, 8) {
			genC05Shared(p, r)
			return
		}
		if r.Chance(1, 12) {
			genC19StalledStream(p, r)
			return
		}
		genMix(p, r, "C05")
	}
	generators["C08"] = func(p *Plan, r *RNG) {
		if r.Chance(1, 10) {
			genC08Rebind(p, r)
			return
		}
		withRace(p, r, 5, func() { genMix(p, r, "C08") })
	}
	generators["C19"] = func(p *Plan, r *RNG) {
		if r.Chance(1, 12) {
			genC19Reservation(p, r)
			return
		}
		if r.Chance(1, 10) {
			genC19StalledStream(p, r)
			return
		}
		withRace(p, r, 6, func() { genMix(p, r, "C19") })
	}
}

// genC08Rebind: bindings that expire under a permission that lives on (PermissionTimeout longer
// than ChannelBindTimeout, or the permission refreshed meanwhile), and whose numbers and peers
// are then bound the other way round. Every datagram a peer sends afterwards comes with the
// number that peer has now - or as a Data indication while it has none.
func genC08Rebind(p *Plan, r *RNG) {
	baseSrvConfig(p, r)
	p.Flavor = "rebind-after-expiry"
	if r.Chance(1, 4) {
		p.Cfg.Listener = "tcp"
	}
	ct := r.PickInt([]int{4, 12})
	p.Cfg.ChanTimeoutS = ct
	p.Cfg.PermTimeoutS = r.PickInt([]int{60, 300, 600})
	addClients(p, r, 1)
	c := p.Clients[0].ID
	p.Peers = []PeerSpec{{ID: "p1", Addr: "10.0.2.1:5000"}, {ID: "p2", Addr: r.Pick([]string{"10.0.2.1:5017", "10.0.2.2:5017"})}, {ID: "p3", Addr: "10.0.2.3:5034"}}
	add := func(o Op) { p.Ops = append(p.Ops, o) }
	n1, n2 := 0x4000+r.Intn(3), 0x4003+r.Intn(3)
	add(Op{Actor: c, Kind: "allocate", At: gap(int64(r.Range(10, 200)) * ms), A: OpArgs{Lifetime: -1}})
	add(Op{Actor: c, Kind: "chanbind", At: gap(200 * ms), A: OpArgs{Peer: p.Peers[0].Addr, Chan: n1}})
	if r.Chance(1, 2) {
		add(Op{Actor: c, Kind: "chanbind", At: gap(100 * ms), A: OpArgs{Peer: p.Peers[1].Addr, Chan: n2}})
	}
	for k := r.Range(1, 3); k > 0; k-- {
		add(Op{Actor: r.Pick([]string{"p1", "p2"}), Kind: "peer_send", At: gap(int64(r.Range(100, 900)) * ms), A: OpArgs{Target: c, Len: r.Range(9, 200)}})
	}
	if r.Chance(1, 2) {
		// the permission is renewed on its own meanwhile
		add(Op{Actor: c, Kind: "createperm", At: gap(int64(ct) * sec / 2), A: OpArgs{Peer: p.Peers[0].Addr}})
		add(Op{Actor: "", Kind: "wait", At: gap(int64(ct)*sec/2 + int64(r.Range(300, 3000))*ms)})
	} else {
		add(Op{Actor: "", Kind: "wait", At: gap(int64(ct)*sec + int64(r.Range(300, 3000))*ms)})
	}
	// the numbers change hands
	switch r.Intn(3) {
	case 0:
		add(Op{Actor: c, Kind: "chanbind", At: gap(100 * ms), A: OpArgs{Peer: p.Peers[1].Addr, Chan: n1}})
		add(Op{Actor: c, Kind: "chanbind", At: gap(100 * ms), A: OpArgs{Peer: p.Peers[0].Addr, Chan: n2}})
	case 1:
		add(Op{Actor: c, Kind: "chanbind", At: gap(100 * ms), A: OpArgs{Peer: p.Peers[2].Addr, Chan: n1}})
	case 2:
		add(Op{Actor: c, Kind: "chanbind", At: gap(100 * ms), A: OpArgs{Peer: p.Peers[0].Addr, Chan: n2}})
	}
	for k := r.Range(2, 5); k > 0; k-- {
		g := gap(int64(r.Range(100, 900)) * ms)
		switch r.Intn(4) {
		case 0, 1:
			add(Op{Actor: r.Pick([]string{"p1", "p1", "p2", "p3"}), Kind: "peer_send", At: g, A: OpArgs{Target: c, Len: r.Range(9, 200)}})
		case 2:
			add(Op{Actor: c, Kind: "chandata", At: g, A: OpArgs{Chan: r.PickInt([]int{n1, n2}), Len: r.Range(9, 200)}})
		case 3:
			add(Op{Actor: c, Kind: "send", At: g, A: OpArgs{Peer: p.Peers[r.Intn(3)].Addr, Len: r.Range(9, 200)}})
		}
	}
	add(Op{Actor: c, Kind: "binding", At: gap(300 * ms)})
	p.QuietNS = 5 * sec
}

var chanEdge = []int{0, 1, 0x3FFF, 0x4000, 0x4001, 0x4002, 0x7FFE, 0x7FFF, 0x8000, 0xFFFF, 0x5000}

func payloadLen(r *RNG, bias string) int {
	if bias == "C05" {
		switch r.Intn(8) {
		case 0:
			return r.Range(0, 8)
		case 1:
			return r.Range(9, 40)
		case 2:
			return r.Range(1190, 1210)
		case 3:
			return r.Range(1380, 1420)
		case 4:
			return r.Range(1490, 1700)
		case 5:
			return r.PickInt([]int{1599, 1600, 1601, 1596, 1597, 1598, 1572, 1573, 1574, 1575, 1576, 1563, 1564})
		case 6:
			return r.PickInt([]int{4000, 9000, 65000, 65400, 65507})
		}
		return r.Range(0, 1400)
	}
	if r.Chance(1, 10) {
		return r.Range(0, 8)
	}
	return r.Range(9, 400)
}

func contentKind(r *RNG, bias string) string {
	if bias == "C05" || r.Chance(1, 6) {
		return r.Pick([]string{"rand", "rand", "zero", "stunlike", "stunvalid", "chanlike", "cookie0"})
	}
	return "rand"
}

// genMix: multi-client, multi-peer histories over the server world; `bias` shifts weights.
// withRace gives one plan in n to the race-with-expiry family (gen_race.go).
func withRace(p *Plan, r *RNG, n int, rest func()) {
	if r.Chance(1, n) {
		genRaceExpiry(p, r)
		return
	}
	rest()
}

func genMix(p *Plan, r *RNG, bias string) {
	baseSrvConfig(p, r)
	p.Flavor = "mix"
	v6 := r.Chance(1, 5)
	tcpl := r.Chance(1, 5)
	if tcpl {
		p.Cfg.Listener = "tcp"
		p.Flavor = "mix-tcp"
	}
	if v6 {
		p.Cfg.ListenerIP = "fd00::1"
		p.Flavor += "-v6"
	}
	// pipelined: over a stream listener the client's data messages leave in bursts, the stream
	// is cut without regard to message boundaries, and a Read hands the server the end of one
	// message together with the beginning of the next
	pipelined := tcpl && r.Chance(1, 2)
	if pipelined {
		cuts, reads := genCuts(r)
		p.Streams = []StreamCut{{Conn: "*", Cuts: cuts, Reads: reads, Coalesce: true}}
		p.Flavor += "+pipelined"
	}
	burst := func() {
		if !pipelined {
			return
		}
		last := p.Ops[len(p.Ops)-1]
		for k := r.Range(1, 3); k > 0; k-- {
			o := last
			o.At = gap(0)
			o.A.Len = payloadLen(r, bias)
			p.Ops = append(p.Ops, o)
		}
	}
	p.Cfg.PermTimeoutS = r.PickInt([]int{0, 0, 3, 10, 60, 300, 600})
	p.Cfg.ChanTimeoutS = r.PickInt([]int{0, 0, 4, 12, 60, 600, 1200})
	p.Cfg.AllocLifeS = r.PickInt([]int{0, 0, 30, 120, 600, 3600})
	p.Cfg.InboundMTU = r.PickInt([]int{0, 0, 0, 576, 1200, 1600, 4096, 65535})
	p.Cfg.StrictFamily = r.Chance(1, 6)
	nc := r.Range(1, 4)
	if bias == "C04" {
		nc = r.Range(2, 4)
	}
	np := r.Range(1, 4)
	// clients
	for i := 0; i < nc; i++ {
		ip := fmt.Sprintf("10.0.1.%d", 1+i)
		if v6 {
			ip = fmt.Sprintf("fd00:1::%d", 1+i)
		}
		if i > 0 && r.Chance(1, 3) {
			ip = mustUDPAddr(p.Clients[0].Addr).IP.String()
		}
		u := p.Cfg.Users[r.Intn(len(p.Cfg.Users))]
		port := 4000 + i*13
		if i > 0 && ip != mustUDPAddr(p.Clients[0].Addr).IP.String() && r.Chance(1, 3) {
			port = 4000 // another host using the same source port as the first client
		}
		addr := fmt.Sprintf("%s:%d", ip, port)
		if v6 {
			addr = fmt.Sprintf("[%s]:%d", ip, port)
		}
		p.Clients = append(p.Clients, ClientSpec{ID: fmt.Sprintf("c%d", i+1), Addr: addr, User: u.Name, Pass: u.Pass, Phase: int64(1000 + i*101)})
	}
	for i := 0; i < np; i++ {
		ip := fmt.Sprintf("10.0.2.%d", 1+i)
		if v6 {
			ip = fmt.Sprintf("fd00:2::%d", 1+i)
		}
		if i > 0 && r.Chance(1, 4) {
			ip = mustUDPAddr(p.Peers[0].Addr).IP.String()
		}
		addr := fmt.Sprintf("%s:%d", ip, 5000+i*17)
		if v6 {
			addr = fmt.Sprintf("[%s]:%d", ip, 5000+i*17)
		}
		p.Peers = append(p.Peers, PeerSpec{ID: fmt.Sprintf("p%d", i+1), Addr: addr})
	}
	// an address of the other family, and a vetoed peer
	other := "fd00:2::99:7000"
	other = "[fd00:2::99]:7000"
	if v6 {
		other = "10.0.2.99:7000"
	}
	if r.Chance(1, 2) && np > 1 {
		p.Cfg.DenyPeerIPs = []string{mustUDPAddr(p.Peers[np-1].Addr).IP.String()}
	}
	if r.Chance(1, 6) && nc > 1 {
		p.Cfg.DenyClients = []string{ustr(mustUDPAddr(p.Clients[nc-1].Addr))}
	}
	if r.Chance(1, 8) {
		p.Cfg.DenyQuota = []string{"u3"}
	}
	fam := ""
	if v6 && r.Chance(1, 2) {
		fam = "6"
	}
	if p.Cfg.StrictFamily && v6 {
		fam = "6"
	}
	allocOps := map[string]int{}
	for i := 0; i < nc; i++ {
		c := p.Clients[i].ID
		o := Op{Actor: c, Kind: "allocate", At: gap(int64(r.Range(1, 300)) * ms), A: OpArgs{Lifetime: r.PickI64([]int64{-1, -1, 600, 30, 3600, 7})}}
		o.A.Family = fam
		if bias == "C19" {
			if r.Chance(1, 4) {
				o.A.Flags = append(o.A.Flags, r.Pick([]string{"evenport", "token", "dontfrag", "unknownattr"}))
			}
			if r.Chance(1, 6) {
				o.A.Family = r.Pick([]string{"4", "6", "bad"})
			}
			if r.Chance(1, 8) {
				o.A.Transport = r.Pick([]string{"other", "absent"})
			}
		}
		if bias == "C04" && r.Chance(1, 2) {
			o.A.TID = "shared:1"
		}
		p.Ops = append(p.Ops, o)
		allocOps[c] = len(p.Ops) // 1-based op id after numbering
		if bias == "C19" && i == 0 && r.Chance(1, 10) {
			// the write of this very success response fails (the 401 challenge is the first
			// write on the listener, the success the second); the client retransmits
			p.Flavor += "+lost-allocate-ok"
			p.IOFaults = append(p.IOFaults, IOFault{M: Match{Sock: "listener", Op: "WriteTo", Nth: 2}, Do: "error"})
			p.Ops = append(p.Ops, Op{Actor: c, Kind: "retransmit", At: gap(int64(r.Range(100, 1500)) * ms), A: OpArgs{N: allocOps[c]}})
			if r.Chance(1, 2) {
				p.Ops = append(p.Ops, Op{Actor: c, Kind: "retransmit", At: gap(int64(r.Range(100, 1500)) * ms), A: OpArgs{N: allocOps[c]}})
			}
		}
	}
	type bound struct {
		n    int
		peer string
	}
	chans := map[string][]bound{}
	pickPeer := func() (string, string) {
		i := r.Intn(np)
		return p.Peers[i].ID, p.Peers[i].Addr
	}
	n := r.Range(4, 24)
	if p.Tier == "thorough" {
		n = r.Range(4, 50)
	}
	for i := 0; i < n; i++ {
		ci := r.Intn(nc)
		c := p.Clients[ci].ID
		pid, peer := pickPeer()
		pip := mustUDPAddr(peer).IP.String()
		g := gap(int64(r.Range(1, 1500)) * ms)
		if r.Chance(1, 8) {
			g = gap(int64(r.Range(1, 400)) * sec)
		}
		w := r.Intn(100)
		switch {
		case w < 12:
			ps := []string{peer}
			for k := r.Intn(3); k > 0; k-- {
				_, q := pickPeer()
				ps = append(ps, q)
			}
			if r.Chance(1, 6) {
				ps = append(ps, other)
			}
			p.Ops = append(p.Ops, Op{Actor: c, Kind: "createperm", At: g, A: OpArgs{Peers: ps}})
		case w < 24:
			ch := 0x4000 + r.Intn(3)
			if bias == "C08" || r.Chance(1, 6) {
				ch = r.PickInt(chanEdge)
				if r.Chance(1, 4) {
					ch = r.Intn(65536)
				}
			}
			tgt := peer
			if r.Chance(1, 10) {
				tgt = other
			}
			if bias == "C08" && len(chans[c]) > 0 && r.Chance(1, 2) {
				// provoke conflicts and identical re-binds
				b := chans[c][r.Intn(len(chans[c]))]
				switch r.Intn(3) {
				case 0:
					ch, tgt = b.n, b.peer
				case 1:
					ch = b.n
				case 2:
					tgt = b.peer
				}
			}
			p.Ops = append(p.Ops, Op{Actor: c, Kind: "chanbind", At: g, A: OpArgs{Peer: tgt, Chan: ch}})
			chans[c] = append(chans[c], bound{ch, tgt})
		case w < 40:
			tgt := peer
			switch r.Intn(6) {
			case 0:
				a := mustUDPAddr(peer)
				tgt = akey(a.IP, a.Port+1)
			case 1:
				tgt = other
			case 2:
				_, tgt = pickPeer()
			}
			p.Ops = append(p.Ops, Op{Actor: c, Kind: "send", At: g, A: OpArgs{Peer: tgt, Len: payloadLen(r, bias), Content: contentKind(r, bias)}})
			burst()
		case w < 52:
			ch := 0x4000 + r.Intn(3)
			if bs := chans[c]; len(bs) > 0 && r.Chance(3, 4) {
				ch = bs[r.Intn(len(bs))].n
			}
			if oc := p.Clients[r.Intn(nc)].ID; r.Chance(1, 5) && len(chans[oc]) > 0 {
				ch = chans[oc][0].n
			}
			if ch < 0x4000 || ch > 0x7FFF {
				ch = 0x4000 + ch%0x4000
			}
			p.Ops = append(p.Ops, Op{Actor: c, Kind: "chandata", At: g, A: OpArgs{Chan: ch, Len: payloadLen(r, bias), Content: contentKind(r, bias)}})
			burst()
		case w < 70:
			o := Op{Actor: pid, Kind: "peer_send", At: g, A: OpArgs{Target: c, Len: payloadLen(r, bias), Content: contentKind(r, bias)}}
			if r.Chance(1, 4) {
				o.A.N = 6000 + r.Intn(3) // same IP, other port
			}
			p.Ops = append(p.Ops, o)
		case w < 74:
			p.Ops = append(p.Ops, Op{Actor: c, Kind: "refresh", At: g, A: OpArgs{Lifetime: r.PickI64([]int64{-1, 600, 0, 30, 3600})}})
		case w < 78:
			p.Ops = append(p.Ops, Op{Actor: c, Kind: "binding", At: g})
		case w < 82:
			// retransmit the Allocate (same transaction id)
			p.Ops = append(p.Ops, Op{Actor: c, Kind: "retransmit", At: g, A: OpArgs{N: allocOps[c]}})
		case w < 86:
			// a second Allocate with a new transaction id
			p.Ops = append(p.Ops, Op{Actor: c, Kind: "allocate", At: g, A: OpArgs{Lifetime: -1, Family: fam}})
		case w < 90 && nc > 1:
			// replay another client's authentic message from this client's address
			oc := p.Clients[(ci+1)%nc].ID
			p.Ops = append(p.Ops, Op{Actor: c, Kind: "replay", At: g, A: OpArgs{Target: oc, N: r.Range(1, len(p.Ops))}})
		case w < 94:
			// probe around a deadline
			off := r.PickI64(edgeOffsets)
			switch r.Intn(3) {
			case 0:
				p.Ops = append(p.Ops, Op{Actor: c, Kind: "send", At: ref("perm_deadline", off, c, pip), A: OpArgs{Peer: peer, Len: payloadLen(r, "")}})
			case 1:
				p.Ops = append(p.Ops, Op{Actor: pid, Kind: "peer_send", At: ref("perm_deadline", off, c, pip), A: OpArgs{Target: c, Len: payloadLen(r, "")}})
			case 2:
				if bs := chans[c]; len(bs) > 0 {
					b := bs[r.Intn(len(bs))]
					if b.n >= 0x4000 && b.n <= 0x7FFF {
						p.Ops = append(p.Ops, Op{Actor: c, Kind: "chandata", At: ref("chan_deadline", off, c, itoa(b.n)), A: OpArgs{Chan: b.n, Len: payloadLen(r, "")}})
					}
				}
			}
		case w < 97:
			p.Ops = append(p.Ops, Op{Actor: "", Kind: "wait", At: ref("alloc_deadline", r.PickI64([]int64{-1, 1, sec}), c)})
		default:
			// peer traffic toward a relay the sender's target no longer / never owned
			p.Ops = append(p.Ops, Op{Actor: pid, Kind: "peer_send", At: g, A: OpArgs{Target: akey(mustUDPAddr("10.0.0.2:1").IP, 49152+r.Intn(16000)), Len: 30}})
		}
	}
	p.QuietNS = int64(r.PickInt([]int{5, 30, 700})) * sec
	if !v6 && r.Chance(1, 4) {
		// the same IPv4 peer written in its IPv4-mapped IPv6 notation (family 0x02): it is
		// that peer, for permissions, bindings and duplicate checks alike
		for i := range p.Ops {
			k := p.Ops[i].Kind
			if (k == "createperm" || k == "chanbind" || k == "send" || k == "connect") && r.Chance(1, 3) {
				p.Ops[i].A.Flags = append(p.Ops[i].A.Flags, "mapped")
			}
		}
		p.Flavor += "+mapped"
	}
	if !v6 && !tcpl && r.Chance(1, 8) {
		addLookalikePeers(p, r)
	}
	if r.Chance(1, 6) {
		addHairpin(p, r)
	}
	if !v6 && fam == "" && p.Cfg.Nonce == "" && r.Chance(1, 8) {
		// a bundled relay address generator (static, or a port range of 3-40 ports) instead of the harness's
		if p.Cfg.Extra == nil {
			p.Cfg.Extra = map[string]int64{}
		}
		p.Cfg.Extra["real_gen"] = int64(r.PickInt([]int{1, 1, 3, 8, 40}))
		p.Flavor += "+bundled-gen"
	}
	addFaults(p, r, faultLevel(r))
	if r.Chance(1, 5) {
		addOverlap(p, r)
	}
	if tcpl && r.Chance(1, 3) {
		addSlowStreamClient(p, r)
	}
}

// addOverlap parks the socket write of one relayed datagram and lets other relayed traffic -
// copies of other relay operations of the plan, mostly other allocations' - pass meanwhile.
// Whatever the parked write still shares with the rest of the server (a buffer, a cached
// lookup) shows as an altered, duplicated or misdirected datagram.
func addOverlap(p *Plan, r *RNG) {
	var idx []int
	for i, o := range p.Ops {
		if (o.Kind == "peer_send" || o.Kind == "send" || o.Kind == "chandata") && o.At.Ref == "" && i+1 < len(p.Ops) {
			idx = append(idx, i)
		}
	}
	if len(idx) < 2 {
		return
	}
	i := idx[r.Intn(len(idx))]
	x := p.Ops[i]
	cls := "sock:relay:WriteTo"
	if x.Kind == "peer_send" {
		cls = "sock:listener:WriteTo"
		if p.Cfg.Listener == "tcp" {
			cls = "sock:listener-conn:Write"
		}
	}
	park := r.PickI64([]int64{5 * ms, 100 * ms, sec})
	p.Stalls = append(p.Stalls, Stall{M: Match{Class: cls, Args: "*", Nth: 1}, ParkNS: park, AfterOp: i + 1})
	// other relay operations during the park, preferring other parties
	var ins []Op
	for k := r.Range(1, 3); k > 0; k-- {
		j := idx[r.Intn(len(idx))]
		for tries := 0; tries < 4 && (p.Ops[j].Actor == x.Actor && p.Ops[j].A.Target == x.A.Target); tries++ {
			j = idx[r.Intn(len(idx))]
		}
		o := p.Ops[j]
		o.At = gap(park / 4)
		if x.Kind == "peer_send" && j == i {
			o.At = gap(park / 8)
		}
		ins = append(ins, o)
	}
	ops := append([]Op{}, p.Ops[:i+1]...)
	ops = append(ops, ins...)
	p.Ops = append(ops, p.Ops[i+1:]...)
	p.Flavor += "+overlap"
}

// addSlowStreamClient: a client on a TCP listener stops reading while its peers keep sending;
// the server's writes toward it find the window shut. Later it reads again. Whatever reaches
// it must still be whole frames, in order, intact.
func addSlowStreamClient(p *Plan, r *RNG) {
	if len(p.Clients) == 0 || len(p.Peers) == 0 {
		return
	}
	c := p.Clients[0].ID
	p.Streams = append(p.Streams, StreamCut{Conn: "srv>*", Window: r.PickInt([]int{1024, 4096, 16384})})
	p.Flavor += "+slow-client"
	peer := p.Peers[0]
	ops := []Op{{Actor: c, Kind: "createperm", At: gap(300 * ms), A: OpArgs{Peer: peer.Addr}},
		{Actor: c, Kind: "tcp_pause", At: gap(200 * ms)}}
	for k := r.Range(6, 40); k > 0; k-- {
		ops = append(ops, Op{Actor: peer.ID, Kind: "peer_send", At: gap(int64(r.Range(1, 60)) * ms), A: OpArgs{Target: c, Len: r.PickInt([]int{100, 700, 1200, 1500})}})
	}
	resume := r.PickI64([]int64{300 * ms, 6 * sec, 31 * sec})
	if r.Chance(1, 2) {
		// the client goes on sending requests while it does not read: their responses queue up
		// behind the relayed data on the same stream - whole frames, in order, nothing cut
		for k := r.Range(1, 3); k > 0 && resume > sec; k-- {
			g := r.PickI64([]int64{100 * ms, resume / 4})
			resume -= g
			ops = append(ops, Op{Actor: c, Kind: r.Pick([]string{"binding", "refresh"}), At: gap(g), A: OpArgs{Lifetime: 600}})
		}
	}
	ops = append(ops, Op{Actor: c, Kind: "tcp_resume", At: gap(resume)})
	for k := r.Range(2, 6); k > 0; k-- {
		ops = append(ops, Op{Actor: peer.ID, Kind: "peer_send", At: gap(int64(r.Range(20, 300)) * ms), A: OpArgs{Target: c, Len: r.PickInt([]int{100, 700, 1200})}})
	}
	ops = append(ops, Op{Actor: c, Kind: "binding", At: gap(500 * ms)})
	p.Ops = append(p.Ops, ops...)
}

// genC19Reservation: EVEN-PORT with the reserve bit hands out a token for the next port; a second
// client uses it - sometimes first in a request that is refused (token together with
// REQUESTED-ADDRESS-FAMILY or EVEN-PORT is a 400, a bad family a 440), which must change
// nothing: the corrected request with the same token still gets the reserved port.
func genC19Reservation(p *Plan, r *RNG) {
	baseSrvConfig(p, r)
	p.Flavor = "reservation"
	p.Cfg.AllocLifeS = r.PickInt([]int{0, 600})
	addClients(p, r, 3)
	addPeers(p, r, 1)
	a, b, c := p.Clients[0].ID, p.Clients[1].ID, p.Clients[2].ID
	p.Ops = append(p.Ops, Op{Actor: a, Kind: "allocate", At: gap(int64(r.Range(10, 300)) * ms), A: OpArgs{Lifetime: -1, Flags: []string{"evenport"}}})
	// b learns a nonce first (its own plain request is refused for a bad family, or it just probes)
	p.Ops = append(p.Ops, Op{Actor: b, Kind: "binding", At: gap(200 * ms)})
	n := r.Intn(3)
	for i := 0; i < n; i++ {
		o := Op{Actor: b, Kind: "allocate", At: gap(int64(r.Range(100, 2000)) * ms), A: OpArgs{Lifetime: -1, Target: a, Flags: []string{"usetoken"}}}
		switch r.Intn(3) {
		case 0:
			o.A.Family = r.Pick([]string{"4", "6", "bad"}) // token + family: 400
		case 1:
			o.A.Flags = append(o.A.Flags, "evenport") // token + EVEN-PORT: 400
		case 2:
			o.A.Transport = "other" // unsupported transport: 442
		}
		p.Ops = append(p.Ops, o)
	}
	// the proper use, inside or (rarely) outside the 30 seconds
	g := int64(r.Range(100, 4000)) * ms
	if r.Chance(1, 6) {
		g = int64(r.Range(31, 40)) * sec
	}
	p.Ops = append(p.Ops, Op{Actor: b, Kind: "allocate", At: gap(g), A: OpArgs{Lifetime: -1, Target: a, Flags: []string{"usetoken"}}})
	p.Ops = append(p.Ops, Op{Actor: b, Kind: "retransmit", At: gap(300 * ms), A: OpArgs{N: len(p.Ops)}})
	// a third party tries the same token afterwards (used up, or its port is taken: 508 either way)
	if r.Chance(1, 2) {
		p.Ops = append(p.Ops, Op{Actor: c, Kind: "allocate", At: gap(int64(r.Range(100, 2000)) * ms), A: OpArgs{Lifetime: -1, Target: a, Flags: []string{"usetoken"}}})
	}
	p.Ops = append(p.Ops, Op{Actor: b, Kind: "createperm", At: gap(300 * ms), A: OpArgs{Peer: p.Peers[0].Addr}})
	p.Ops = append(p.Ops, Op{Actor: "p1", Kind: "peer_send", At: gap(300 * ms), A: OpArgs{Target: b, Len: 40}})
	p.QuietNS = 5 * sec
}

// addLookalikePeers: two transport addresses whose careless renderings coincide - "ip" + "port"
// without a separator reads the same for 10.0.2.1:15000 and 10.0.2.11:5000. The client binds a
// channel to (and so permits) the first; the second is a stranger and must stay one.
func addLookalikePeers(p *Plan, r *RNG) {
	if len(p.Clients) == 0 {
		return
	}
	c := p.Clients[0].ID
	a := PeerSpec{ID: "pa", Addr: "10.0.2.1:15000"}
	b := PeerSpec{ID: "pb", Addr: "10.0.2.11:5000"}
	if r.Chance(1, 2) {
		a, b = PeerSpec{ID: "pa", Addr: "10.0.2.12:3456"}, PeerSpec{ID: "pb", Addr: "10.0.2.1:23456"}
	}
	p.Peers = append(p.Peers, a, b)
	ch := 0x4000 + 0x3F0 + r.Intn(8)
	p.Ops = append(p.Ops,
		Op{Actor: c, Kind: "chanbind", At: gap(400 * ms), A: OpArgs{Peer: a.Addr, Chan: ch}},
		Op{Actor: "pa", Kind: "peer_send", At: gap(200 * ms), A: OpArgs{Target: c, Len: r.Range(10, 100)}},
		Op{Actor: "pb", Kind: "peer_send", At: gap(200 * ms), A: OpArgs{Target: c, Len: r.Range(10, 100)}},
		Op{Actor: c, Kind: "send", At: gap(200 * ms), A: OpArgs{Peer: b.Addr, Len: r.Range(10, 100)}},
		Op{Actor: c, Kind: "chanbind", At: gap(200 * ms), A: OpArgs{Peer: b.Addr, Chan: ch}}, // the number is taken: 400
		Op{Actor: "pb", Kind: "peer_send", At: gap(200 * ms), A: OpArgs{Target: c, Len: r.Range(10, 100)}})
	p.Flavor += "+lookalike"
}

// addHairpin: traffic between two allocations of the same server, and through one's own relay.
// The "peer" of a client is another client's relayed address ("@c2", resolved when the
// operation is issued): what relay A emits arrives at relay B as a peer datagram and is
// forwarded - or not - by B's rules (a permission for the relay IP, a channel bound to A's
// relayed address), with A's relayed address as the peer address. Both halves are judged by
// the ordinary rules; this family makes the server its own peer.
func addHairpin(p *Plan, r *RNG) {
	if len(p.Clients) == 0 {
		return
	}
	p.Flavor += "+hairpin"
	ids := []string{}
	for _, c := range p.Clients {
		ids = append(ids, c.ID)
	}
	var ops []Op
	n := r.Range(3, 12)
	for i := 0; i < n; i++ {
		a := ids[r.Intn(len(ids))]
		b := ids[r.Intn(len(ids))]
		if r.Chance(1, 5) {
			b = a // the loop through one's own relay
		}
		g := gap(int64(r.Range(5, 900)) * ms)
		switch r.Intn(6) {
		case 0:
			ops = append(ops, Op{Actor: b, Kind: "createperm", At: g, A: OpArgs{Peer: "@" + a}}) // b lets a's relay in
		case 1:
			ops = append(ops, Op{Actor: a, Kind: "createperm", At: g, A: OpArgs{Peer: "@" + b}})
		case 2:
			ops = append(ops, Op{Actor: a, Kind: "chanbind", At: g, A: OpArgs{Peer: "@" + b, Chan: 0x4000 + r.Intn(3)}})
		case 3, 4:
			ops = append(ops, Op{Actor: a, Kind: "send", At: g, A: OpArgs{Peer: "@" + b, Len: r.Range(1, 400)}})
		case 5:
			ops = append(ops, Op{Actor: a, Kind: "chandata", At: g, A: OpArgs{Chan: 0x4000 + r.Intn(3), Len: r.Range(1, 400)}})
		}
	}
	// inserted after the allocations, before the tail of the plan
	k := len(p.Clients)
	if k > len(p.Ops) {
		k = len(p.Ops)
	}
	if len(p.Ops) > k {
		k = r.Range(k, len(p.Ops))
	}
	out := append([]Op{}, p.Ops[:k]...)
	out = append(out, ops...)
	p.Ops = append(out, p.Ops[k:]...)
	// operations that name another one by its number (retransmit, replay) follow the shift
	for i := range p.Ops {
		if o := &p.Ops[i]; (o.Kind == "retransmit" || o.Kind == "replay") && o.A.N > k {
			o.A.N += len(ops)
		}
	}
}

// genC05Shared: what relay loops of different allocations might share (a recycled frame, a
// cached buffer, a lookup result) shows only when two of them are inside their forwarding at
// once - and often only after something has gone wrong once (a failed write toward a client
// whose clean-up returns a resource twice). Several clients hold channels to the same peers;
// an early relayed write fails; then the socket write of one forwarded datagram is parked while
// the other allocations forward theirs, round after round, over channels and as indications.
func genC05Shared(p *Plan, r *RNG) {
	baseSrvConfig(p, r)
	p.Flavor = "shared-relay-state"
	p.Cfg.PermTimeoutS, p.Cfg.ChanTimeoutS, p.Cfg.AllocLifeS = 0, 0, 0
	nc := r.Range(2, 3)
	addClients(p, r, nc)
	addPeers(p, r, 2)
	add := func(o Op) int {
		p.Ops = append(p.Ops, o)
		return len(p.Ops)
	}
	writes := 0 // writes on the listener socket so far (challenge + success per first request, then one each)
	for i := 0; i < nc; i++ {
		c := p.Clients[i].ID
		add(Op{Actor: c, Kind: "allocate", At: gap(int64(r.Range(10, 200)) * ms), A: OpArgs{Lifetime: -1}})
		writes += 2
		for k, pe := range p.Peers {
			if k == 0 || r.Chance(1, 2) {
				add(Op{Actor: c, Kind: "chanbind", At: gap(int64(r.Range(50, 200)) * ms), A: OpArgs{Peer: pe.Addr, Chan: 0x4000 + k}})
			} else {
				add(Op{Actor: c, Kind: "createperm", At: gap(int64(r.Range(50, 200)) * ms), A: OpArgs{Peer: pe.Addr}})
			}
			writes++
		}
	}
	lens := []int{1, 7, 40, 300, 1200}
	send := func(at TimeSpec) int {
		pe := p.Peers[r.Intn(len(p.Peers))]
		return add(Op{Actor: pe.ID, Kind: "peer_send", At: at, A: OpArgs{Target: p.Clients[r.Intn(nc)].ID, Len: r.PickInt(lens)}})
	}
	warm := r.Range(2, 6)
	for i := 0; i < warm; i++ {
		send(gap(int64(r.Range(20, 300)) * ms))
	}
	if r.Chance(2, 3) {
		// one of the warm-up datagrams (or of the first round) cannot be written to its client
		p.IOFaults = append(p.IOFaults, IOFault{M: Match{Sock: "listener", Op: "WriteTo", Nth: writes + r.Range(1, warm+1)}, Do: "error"})
		p.Flavor += "+write-error"
	}
	for round := r.Range(1, 4); round > 0; round-- {
		park := r.PickI64([]int64{20 * ms, 200 * ms, sec})
		x := send(gap(int64(r.Range(100, 600)) * ms))
		p.Stalls = append(p.Stalls, Stall{M: Match{Class: "sock:listener:WriteTo", Args: "*", Nth: 1}, ParkNS: park, AfterOp: x})
		for k := r.Range(1, 3); k > 0; k-- {
			send(gap(park / int64(r.Range(3, 6))))
		}
		add(Op{Actor: "", Kind: "wait", At: gap(park + 50*ms)})
		for k := r.Range(1, 3); k > 0; k-- {
			send(gap(int64(r.Range(10, 100)) * ms))
		}
	}
	p.QuietNS = 5 * sec
}

// genC19StalledStream: a stream client stops reading while relayed data keeps coming and goes
// on sending requests meanwhile. Everything toward it queues behind the shut window - relayed
// frames and responses from two goroutines of the server on one connection. When it reads
// again, what arrives is whole frames in order with every response among them; another client
// of the listener is served throughout.
func genC19StalledStream(p *Plan, r *RNG) {
	baseSrvConfig(p, r)
	p.Flavor = "stalled-stream"
	p.Cfg.Listener = "tcp"
	p.Cfg.PermTimeoutS, p.Cfg.ChanTimeoutS, p.Cfg.AllocLifeS = 0, 0, 0
	addClients(p, r, 2)
	addPeers(p, r, 1)
	c, c2, pe := p.Clients[0].ID, p.Clients[1].ID, p.Peers[0]
	p.Streams = append(p.Streams, StreamCut{Conn: "srv>*", Window: r.PickInt([]int{600, 1024, 2500, 4096})})
	add := func(o Op) { p.Ops = append(p.Ops, o) }
	add(Op{Actor: c, Kind: "allocate", At: gap(int64(r.Range(10, 200)) * ms), A: OpArgs{Lifetime: -1}})
	add(Op{Actor: c2, Kind: "allocate", At: gap(int64(r.Range(10, 200)) * ms), A: OpArgs{Lifetime: -1}})
	if r.Chance(1, 2) {
		add(Op{Actor: c, Kind: "chanbind", At: gap(200 * ms), A: OpArgs{Peer: pe.Addr, Chan: 0x4000}})
	} else {
		add(Op{Actor: c, Kind: "createperm", At: gap(200 * ms), A: OpArgs{Peer: pe.Addr}})
	}
	add(Op{Actor: c, Kind: "tcp_pause", At: gap(300 * ms)})
	for k := r.Range(3, 14); k > 0; k-- {
		add(Op{Actor: pe.ID, Kind: "peer_send", At: gap(int64(r.Range(1, 40)) * ms), A: OpArgs{Target: c, Len: r.PickInt([]int{100, 333, 700, 1201, 1500})}})
	}
	stall := r.PickI64([]int64{2 * sec, 5 * sec, 9 * sec, 35 * sec})
	left := stall
	for k := r.Range(1, 4); k > 0 && left > 200*ms; k-- {
		g := r.PickI64([]int64{50 * ms, 300 * ms, left / 3})
		left -= g
		switch r.Intn(3) {
		case 0:
			add(Op{Actor: c, Kind: "binding", At: gap(g)})
		case 1:
			add(Op{Actor: c, Kind: "refresh", At: gap(g), A: OpArgs{Lifetime: 600}})
		case 2:
			add(Op{Actor: c2, Kind: "binding", At: gap(g)})
		}
		if r.Chance(1, 2) {
			add(Op{Actor: pe.ID, Kind: "peer_send", At: gap(10 * ms), A: OpArgs{Target: c, Len: r.PickInt([]int{100, 700, 1201})}})
			left -= 10 * ms
		}
	}
	if left < ms {
		left = ms
	}
	add(Op{Actor: c, Kind: "tcp_resume", At: gap(left)})
	for k := r.Range(1, 4); k > 0; k-- {
		add(Op{Actor: pe.ID, Kind: "peer_send", At: gap(int64(r.Range(20, 300)) * ms), A: OpArgs{Target: c, Len: r.PickInt([]int{100, 700, 1200})}})
	}
	add(Op{Actor: c, Kind: "binding", At: gap(500 * ms)})
	add(Op{Actor: c2, Kind: "refresh", At: gap(200 * ms), A: OpArgs{Lifetime: 600}})
	p.QuietNS = 10 * sec
}
