package sim

import "fmt"

func init() { generators["C03"] = genC03 }

var credDefects = []string{"none", "wrongkey", "flipmi", "truncmi", "unknownuser", "nouser", "norealm", "nononce", "nomi",
	"forgednonce", "mutnonce", "oldnonce", "othernonce", "wrongrealm", "appendnonce"}

// genC03: every method x credential defect x server state, both nonce implementations and
// every HMAC truncation length (handler level), with the clock moved across the nonce hour.
// genC03AfterMI: a CreatePermission whose credentials are in order and which names one peer -
// with a second XOR-PEER-ADDRESS appended behind MESSAGE-INTEGRITY (FINGERPRINT recomputed),
// which takes no key. The authentic request is for the first peer only; the second peer then
// sends to the relayed address and is sent to.
func genC03AfterMI(p *Plan, r *RNG) {
	baseSrvConfig(p, r)
	p.Flavor = "cred-after-integrity"
	if r.Chance(1, 3) {
		p.Cfg.Listener = "tcp"
	}
	addClients(p, r, 1)
	addPeers(p, r, 2)
	c := p.Clients[0].ID
	a, b := p.Peers[0], p.Peers[1]
	p.Ops = append(p.Ops, Op{Actor: c, Kind: "allocate", At: gap(int64(r.Range(10, 200)) * ms), A: OpArgs{Lifetime: -1}})
	if r.Chance(1, 2) {
		p.Ops = append(p.Ops, Op{Actor: c, Kind: "createperm", At: gap(200 * ms), A: OpArgs{Peer: a.Addr}})
	}
	p.Ops = append(p.Ops, Op{Actor: c, Kind: "createperm", At: gap(int64(r.Range(100, 900)) * ms), A: OpArgs{Peers: []string{a.Addr, b.Addr}, Flags: []string{"aftermi"}}})
	for k := r.Range(2, 6); k > 0; k-- {
		g := gap(int64(r.Range(50, 900)) * ms)
		switch r.Intn(4) {
		case 0:
			p.Ops = append(p.Ops, Op{Actor: b.ID, Kind: "peer_send", At: g, A: OpArgs{Target: c, Len: r.Range(10, 200)}})
		case 1:
			p.Ops = append(p.Ops, Op{Actor: c, Kind: "send", At: g, A: OpArgs{Peer: b.Addr, Len: r.Range(10, 200)}})
		case 2:
			p.Ops = append(p.Ops, Op{Actor: a.ID, Kind: "peer_send", At: g, A: OpArgs{Target: c, Len: r.Range(10, 200)}})
		case 3:
			p.Ops = append(p.Ops, Op{Actor: c, Kind: "send", At: g, A: OpArgs{Peer: a.Addr, Len: r.Range(10, 200)}})
		}
	}
	p.Ops = append(p.Ops, Op{Actor: c, Kind: "binding", At: gap(300 * ms)})
	p.QuietNS = 5 * sec
}

func genC03(p *Plan, r *RNG) {
	if r.Chance(1, 14) {
		genC03AfterMI(p, r)
		return
	}
	if r.Chance(1, 10) {
		// the TCP relay methods (Connect, ConnectionBind by owner, other user, bad credentials)
		genC16(p, r)
		p.Flavor = "cred:" + p.Flavor
		return
	}
	baseSrvConfig(p, r)
	p.Flavor = "cred"
	hm := 12
	switch r.Intn(4) {
	case 0: // full turn.Server (built-in short nonce)
	case 1:
		p.Cfg.Nonce = "long"
		p.Flavor = "cred-long"
		hm = 32
	default:
		hm = r.Range(2, 32)
		p.Cfg.Nonce = fmt.Sprintf("short:%d", hm)
		p.Flavor = "cred-short"
	}
	if r.Chance(1, 10) {
		p.Cfg.Auth = "none"
		p.Flavor += "-noauth"
	}
	p.Cfg.AllocLifeS = r.PickInt([]int{0, 3600, 7200})
	p.Cfg.PermTimeoutS = r.PickInt([]int{0, 4000})
	lookalike := r.Chance(1, 3)
	if lookalike {
		p.Cfg.Users = append(p.Cfg.Users, User{"U1", "pw-ONE"}, User{"U2", "pw-TWO"})
	}
	addClients(p, r, 2)
	p.Clients[0].User, p.Clients[0].Pass = "u1", "pw-one"
	p.Clients[1].User, p.Clients[1].Pass = "u2", "pw-two"
	addPeers(p, r, 2)
	peer := p.Peers[0].Addr
	peer2 := p.Peers[1].Addr
	p.Ops = append(p.Ops, Op{Actor: "c1", Kind: "allocate", At: gap(100 * ms), A: OpArgs{Lifetime: 3599}})
	if r.Chance(3, 4) {
		p.Ops = append(p.Ops, Op{Actor: "c1", Kind: "createperm", At: gap(200 * ms), A: OpArgs{Peer: peer}})
	}
	if r.Chance(1, 2) {
		p.Ops = append(p.Ops, Op{Actor: "c2", Kind: "allocate", At: gap(200 * ms), A: OpArgs{Lifetime: -1}})
	}
	defects := credDefects
	n := r.Range(3, 14)
	for i := 0; i < n; i++ {
		c := "c1"
		if r.Chance(1, 4) {
			c = "c2"
		}
		g := gap(int64(r.Range(50, 2000)) * ms)
		if r.Chance(1, 7) {
			// cross (or approach) the one-hour nonce horizon; keep the allocation alive meanwhile
			g = gap(int64(r.PickInt([]int{1500, 3300, 3500, 3700, 3900, 7300})) * sec)
		}
		cred := "ok"
		if r.Chance(2, 3) {
			cred = defects[r.Intn(len(defects))]
			if hm < 8 && (cred == "forgednonce" || cred == "mutnonce") {
				cred = "wrongkey" // a random forgery of a short MAC is not negligible: not generated
			}
		}
		user := ""
		if cred == "ok" && r.Chance(1, 4) {
			user = "u2" // another user's perfectly valid credentials on this 5-tuple
			if c == "c2" {
				user = "u1"
			}
			if lookalike && r.Chance(1, 2) {
				// an account of its own whose name differs from the owner's only in case
				user = "U2"
				if c == "c1" {
					user = "U1"
				}
			}
		}
		a := OpArgs{Cred: cred, User: user}
		if r.Chance(1, 5) {
			a.Flags = append(a.Flags, "blind") // no challenge round first: uses whatever nonce is known
		}
		switch r.Intn(6) {
		case 0:
			a.Lifetime = -1
			p.Ops = append(p.Ops, Op{Actor: c, Kind: "allocate", At: g, A: a})
		case 1:
			a.Lifetime = r.PickI64([]int64{0, 600, 3599, -1})
			p.Ops = append(p.Ops, Op{Actor: c, Kind: "refresh", At: g, A: a})
		case 2:
			a.Peer = r.Pick([]string{peer, peer2})
			p.Ops = append(p.Ops, Op{Actor: c, Kind: "createperm", At: g, A: a})
		case 3:
			a.Peer = r.Pick([]string{peer, peer2})
			a.Chan = 0x4000 + r.Intn(3)
			p.Ops = append(p.Ops, Op{Actor: c, Kind: "chanbind", At: g, A: a})
		case 4:
			// data probes: state must be what the model says
			if r.Chance(1, 2) {
				p.Ops = append(p.Ops, Op{Actor: c, Kind: "send", At: g, A: OpArgs{Peer: r.Pick([]string{peer, peer2}), Len: r.Range(10, 100)}})
			} else {
				p.Ops = append(p.Ops, Op{Actor: "p1", Kind: "peer_send", At: g, A: OpArgs{Target: c, Len: r.Range(10, 100)}})
			}
		case 5:
			// replay of an old authentic request (from the same or from another address)
			src := c
			if r.Chance(1, 2) {
				src = "c2"
				if c == "c2" {
					src = "c1"
				}
			}
			p.Ops = append(p.Ops, Op{Actor: src, Kind: "replay", At: g, A: OpArgs{Target: c, N: r.Range(1, len(p.Ops))}})
		}
	}
	if r.Chance(1, 6) && len(p.Ops) > 4 && p.Cfg.Auth != "none" {
		// the operator rotates or removes a user's password while allocations of that user live:
		// from then on only the new password authenticates, on old and new 5-tuples alike
		user := r.Pick([]string{"u1", "u2"})
		op := Op{Kind: "rotate", At: gap(int64(r.Range(50, 800)) * ms), A: OpArgs{User: user}}
		if r.Chance(3, 4) {
			op.A.S = "pw-rotated-" + user
			if r.Chance(1, 2) {
				// the clients of that user learn the new password
				for _, c := range p.Clients {
					if c.User == user {
						op.A.Peers = append(op.A.Peers, c.ID)
					}
				}
			}
		}
		k := r.Range(3, len(p.Ops)-1)
		ops := append([]Op{}, p.Ops[:k]...)
		ops = append(ops, op)
		p.Ops = append(ops, p.Ops[k:]...)
		p.Flavor += "+rotate"
	}
	p.QuietNS = 5 * sec
	addFaults(p, r, faultLevel(r)/2)
}
