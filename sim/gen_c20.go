package sim

import "fmt"

func init() { generators["C20"] = genC20 }

func genC20(p *Plan, r *RNG) {
	p.World = "gen"
	p.Cfg = Config{LatCSns: ms, LatSPns: ms, RelayIP4: r.Pick([]string{"192.0.2.7", "10.0.0.5", "2001:db8::7"}), ListenerIP: r.Pick([]string{"0.0.0.0", "0.0.0.0", "10.0.0.5", "::"}), Extra: map[string]int64{}}
	kind := r.Intn(4)
	min, max := 0, 0
	switch kind {
	case 0:
		p.Cfg.RelayGen = "static"
		p.Flavor = "static"
	case 1:
		p.Cfg.RelayGen = "none"
		p.Flavor = "none"
	default:
		switch r.Intn(7) {
		case 0:
			min = r.Range(1, 65535)
			max = min
		case 1:
			min, max = 1, 65535
		case 2:
			min, max = 65535, 65535
		case 3:
			min, max = 65534, 65535
		case 4:
			min = r.Range(1024, 65000)
			max = min + r.Range(1, 5)
		default:
			min = r.Range(1, 65000)
			max = r.Range(min, 65535)
		}
		p.Cfg.RelayGen = fmt.Sprintf("range:%d-%d", min, max)
		p.Cfg.Extra["max_retries"] = int64(r.PickInt([]int{0, 1, 2, 3, 10, 20}))
		p.Flavor = "range"
	}
	nets := []string{"udp4", "udp4", "tcp4"}
	if p.Cfg.ListenerIP == "::" {
		nets = []string{"udp6", "tcp6"}
	} else if p.Cfg.ListenerIP == "0.0.0.0" && r.Chance(1, 4) {
		nets = []string{"udp4", "udp6", "tcp4", "tcp6"}
	}
	n := r.Range(2, 20)
	span := max - min + 1
	two := r.Chance(1, 4)
	if two {
		// one generator value per ListenerConfig, all with the same settings: the usual way to
		// configure a server with several listeners. Its allocations share the machine's ports
		p.Cfg.Extra["two_gens"] = 1
		p.Flavor += "+two-instances"
	}
	if r.Chance(1, 8) {
		// one port, three owners in a row, and the first owner's Close called once more while the
		// second holds the port: the third request fails (or gets another port), it never shares
		p.Flavor += "+close-twice"
		network := r.Pick(nets)
		kindOp := "gen_pc"
		if network[:3] == "tcp" {
			kindOp = "gen_ln"
		}
		port := r.PickInt([]int{3000, 50000, 65535})
		if kind >= 2 && min == max {
			port = 0 // the range has one port: every allocation gets it or fails
		}
		alloc := Op{Kind: kindOp, At: gap(0), A: OpArgs{S: network, N: port}}
		p.Ops = append(p.Ops, alloc, Op{Kind: "gen_close", At: gap(0), A: OpArgs{N: 0}}, alloc,
			Op{Kind: "gen_reclose", At: gap(0), A: OpArgs{N: 0}}, alloc)
		if r.Chance(1, 2) {
			p.Ops = append(p.Ops, Op{Kind: "gen_close", At: gap(0), A: OpArgs{N: 0}}, Op{Kind: "gen_reclose", At: gap(0), A: OpArgs{N: r.Intn(2)}}, alloc, alloc)
		}
		n = r.Range(0, 6)
	}
	for i := 0; i < n; i++ {
		network := r.Pick(nets)
		switch w := r.Intn(100); {
		case w < 12 && kind >= 2:
			// adversarial random source: 0, n-1, a colliding value repeated, a walk over the range
			var sc []int
			switch r.Intn(4) {
			case 0:
				sc = []int{0, 0, 0, 0}
			case 1:
				sc = []int{-1, -1, -1}
			case 2:
				v := r.Intn(span)
				for k := 0; k < 25; k++ {
					sc = append(sc, v)
				}
			case 3:
				for k := 0; k < 30 && k < span; k++ {
					sc = append(sc, k)
				}
			}
			p.Ops = append(p.Ops, Op{Kind: "rand", At: gap(0), A: OpArgs{Cuts: sc}})
		case w < 25:
			port := r.Range(1024, 65535)
			if kind >= 2 && r.Chance(2, 3) {
				port = min + r.Intn(span)
			}
			p.Ops = append(p.Ops, Op{Kind: "occupy", At: gap(0), A: OpArgs{S: network, N: port}})
		case w < 40:
			p.Ops = append(p.Ops, Op{Kind: "gen_close", At: gap(0), A: OpArgs{N: r.Intn(8)}})
		case w < 45:
			p.Ops = append(p.Ops, Op{Kind: "gen_reclose", At: gap(0), A: OpArgs{N: r.Intn(8)}})
		default:
			kindOp := "gen_pc"
			if network[:3] == "tcp" {
				kindOp = "gen_ln"
			}
			port := 0
			if r.Chance(1, 4) {
				port = r.PickInt([]int{3000, 50000, 65535, 1, min, max})
				if port == 0 {
					port = 40000
				}
			}
			o := Op{Kind: kindOp, At: gap(0), A: OpArgs{S: network, N: port}}
			if two && r.Chance(1, 2) {
				o.A.Flags = []string{"g2"}
			}
			p.Ops = append(p.Ops, o)
		}
	}
	if r.Chance(1, 6) {
		p.IOFaults = append(p.IOFaults, IOFault{M: Match{Sock: "relay", Op: "Listen", Nth: r.Range(1, 6)}, Do: "error"})
	}
}
