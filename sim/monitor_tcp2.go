package sim

import (
	"fmt"
	"net"

	"github.com/pion/stun/v3"
)

// ---- RFC 6062 (TCP allocations): oracles of C16 (and the TCP parts of C01/C02/C15)

type relayConn struct {
	Conn     *TCPConn // server-side endpoint of the connection to/from the peer
	RelayKey string
	Peer     string
	Outbound bool
	At       int64
	Used     bool
}

const bindTimeoutNS = 30 * int64(1e9)

func (m *Monitor) findTCPByCID(cid uint32) (*mAlloc, *mTCP) {
	for _, as := range m.M.Allocs {
		for _, a := range as {
			if t, ok := a.TCPs[cid]; ok {
				return a, t
			}
		}
	}
	return nil, nil
}

func (m *Monitor) takeRelayConn(relayKey, peer string, outbound bool) *relayConn {
	for _, rc := range m.relayConns {
		if !rc.Used && rc.RelayKey == relayKey && rc.Peer == peer && rc.Outbound == outbound {
			rc.Used = true
			return rc
		}
	}
	return nil
}

func (m *Monitor) liveCIDs(now int64) map[uint32]bool {
	out := map[uint32]bool{}
	for _, as := range m.M.Allocs {
		for _, a := range as {
			for cid, t := range a.TCPs {
				if !t.Closed && m.M.PossiblyAlive(a, now, now) {
					out[cid] = true
				}
			}
		}
	}
	return out
}

func (m *Monitor) doRespConnect(r *mReq, msg *stun.Message, ok bool, code int, I ivl) {
	poss, def := m.ownerAllocs(r, I)
	peer, okP := getXORAddr(r.Msg, attrXORPeerAddress)
	if !ok {
		if def != nil && okP && r.Auth > 0 && def.User == r.User {
			// a second Connect to a peer with a pending/active connection must be 446
			dup := false
			for _, t := range def.TCPs {
				if t.Peer == ustr(peer) && !t.Closed && !t.peerGone() && t.Created.Hi < I.Lo && (t.Bound || t.Created.Lo+bindTimeoutNS > I.Hi) {
					dup = true
				}
			}
			if dup && code != 446 {
				m.v([]string{"C16"}, "dup-connect-wrong-answer", kv("code", itoa(code)), "second Connect to %s answered %d, want 446", ustr(peer), code)
			}
			// 446 means "this allocation already has a connection to that peer". When this is the
			// first Connect the client ever sent for the peer, the allocation never had a connection
			// to or from it, and another client's allocation does hold one, the answer was taken
			// from the other allocation's state.
			if code == 446 && m.connectReqs[r.Client+"|"+ustr(peer)] == 1 {
				own := false
				for _, t := range def.TCPs {
					if t.Peer == ustr(peer) {
						own = true
					}
				}
				for _, rc := range m.relayConns {
					if rc.RelayKey == def.RelayKey && rc.Peer == ustr(peer) && !rc.Outbound {
						own = true
					}
				}
				other := ""
				for _, as := range m.M.Allocs {
					for _, a := range as {
						if a == def || a.Client == def.Client {
							continue
						}
						for _, t := range a.TCPs {
							if t.Peer == ustr(peer) && !t.Closed && !t.peerGone() && t.Created.Hi < I.Lo {
								other = a.Client
							}
						}
					}
				}
				if !own && other != "" {
					m.v([]string{"C04", "C16"}, "cross-talk", kv("what", "connect"), "first Connect of %s to %s answered 446: only the allocation of %s has a connection to that peer", r.Client, ustr(peer), other)
				}
			}
		}
		return
	}
	cid, okC := getU32(msg, attrConnectionID)
	if !okC || !okP {
		m.v([]string{"C16"}, "malformed-success", kv("method", "connect"), "Connect success without CONNECTION-ID")
		return
	}
	if len(poss) == 0 {
		m.v([]string{"C16", "C06"}, "alive-after-deadline", kv("probe", "connect"), "Connect from %s succeeded without a live allocation", r.Client)
		return
	}
	a := poss[len(poss)-1]
	if r.Auth >= 0 && r.User != "" && a.User != r.User {
		m.v([]string{"C03", "C04"}, "foreign-user-accepted", kv("method", "connect"), "Connect by user %q accepted on allocation of %q", r.User, a.User)
		return
	}
	if r.Auth < 0 {
		return
	}
	if m.vetoed(r.Client, peer.IP) {
		m.v([]string{"C01"}, "vetoed-installed", kv("path", "connect"), "Connect success toward %s which the permission handler refuses", peer.IP)
	}
	if m.liveCIDs(I.Hi)[cid] {
		m.v([]string{"C16"}, "cid-reused", nil, "Connect success names connection id %d which another live connection has", cid)
	}
	for _, t := range a.TCPs {
		// (t.Closed is only brought up to date at idle points, which a parked goroutine postpones:
		// look at the connection itself)
		if t.Peer == ustr(peer) && !t.Closed && !t.peerGone() && t.Created.Hi < I.Lo && (t.Bound || t.Created.Lo+bindTimeoutNS > I.Hi) {
			m.v([]string{"C16"}, "dup-connect-wrong-answer", kv("code", "success"), "second Connect to %s succeeded while connection %d to that peer is pending or active", ustr(peer), t.CID)
		}
	}
	rc := m.takeRelayConn(a.RelayKey, ustr(peer), true)
	if rc == nil {
		m.v([]string{"C16"}, "cid-unreal", kv("dir", "outbound"), "Connect success (id %d) but no TCP connection was made from relay %s to %s", cid, a.RelayKey, ustr(peer))
	}
	t := &mTCP{CID: cid, Peer: ustr(peer), Created: I, Outbound: true}
	if rc != nil {
		t.Conn = rc.Conn
	}
	a.TCPs[cid] = t
	m.K.Stats.Probe("tcp_connect_ok")
}

func (m *Monitor) doConnAttempt(to string, msg *stun.Message, now int64) {
	peer, okP := getXORAddr(msg, attrXORPeerAddress)
	cid, okC := getU32(msg, attrConnectionID)
	if !okP || !okC {
		m.v([]string{"C16"}, "malformed-indication", nil, "ConnectionAttempt without peer address or connection id")
		return
	}
	allocs := m.M.Current(to, 0, now)
	if len(allocs) == 0 {
		m.v([]string{"C02", "C16"}, "unauthorised-forward", kv("form", "connattempt", "reason", "no-allocation"), "ConnectionAttempt sent to %s which has no allocation", to)
		return
	}
	a := allocs[len(allocs)-1]
	if m.liveCIDs(now)[cid] {
		m.v([]string{"C16"}, "cid-reused", nil, "ConnectionAttempt names connection id %d which another live connection has", cid)
	}
	rc := m.takeRelayConn(a.RelayKey, ustr(peer), false)
	if rc == nil {
		m.v([]string{"C16", "C02"}, "cid-unreal", kv("dir", "inbound"), "ConnectionAttempt (id %d) names peer %s but no such connection was accepted at relay %s", cid, ustr(peer), a.RelayKey)
		return
	}
	if !m.permPoss(a, peer.IP.String(), rc.At, now) {
		m.v([]string{"C02", "C16"}, "unauthorised-forward", kv("form", "connattempt", "reason", "no-permission"), "ConnectionAttempt for %s announced to %s without a permission for that IP", ustr(peer), to)
	}
	a.TCPs[cid] = &mTCP{CID: cid, Peer: ustr(peer), Created: ivl{rc.At, now}, Conn: rc.Conn}
	m.K.Stats.Probe("tcp_connattempt")
}

func (m *Monitor) doRespConnBind(r *mReq, msg *stun.Message, ok bool, code int, I ivl) {
	cid, okC := getU32(r.Msg, attrConnectionID)
	a, t := (*mAlloc)(nil), (*mTCP)(nil)
	if okC {
		a, t = m.findTCPByCID(cid)
	}
	if !ok {
		if t != nil && r.Auth > 0 && r.User != a.User {
			t.ForeignTried = true // refused, as it must be - and it must have changed nothing
		}
		if t != nil && r.Auth > 0 && r.User == a.User && !t.Bound && !t.Closed && t.Created.Lo+bindTimeoutNS > I.Hi+1 && m.P.Cfg.Listener == "tcp" &&
			m.M.DefinitelyAlive(a, I.Lo, I.Hi) && len(m.K.StallIntervals()) == 0 && !m.serverClosed && !t.peerGone() {
			props := []string{"C16"}
			if t.ForeignTried {
				props = append(props, "C03") // another user's refused request took effect
			}
			m.v(props, "valid-bind-rejected", kv("code", itoa(code)), "ConnectionBind of pending connection %d, %d ns after it was made, by its owner answered %d (another user's bind was refused before: %v)", cid, I.Lo-t.Created.Hi, code, t.ForeignTried)
		}
		return
	}
	if t == nil {
		m.v([]string{"C16"}, "cid-unreal", kv("dir", "bind"), "ConnectionBind of unknown connection id %d succeeded", cid)
		return
	}
	if r.Auth >= 0 && r.User != a.User {
		m.v([]string{"C16", "C03"}, "foreign-bind", nil, "ConnectionBind by user %q of a connection of %q's allocation succeeded", r.User, a.User)
	}
	if r.Auth < 0 {
		return
	}
	if t.Bound {
		m.v([]string{"C16"}, "double-bind", nil, "connection %d was bound a second time", cid)
		return
	}
	if I.Lo > m.M.widen(t.Created.Hi+bindTimeoutNS) {
		m.v([]string{"C16"}, "late-bind", nil, "connection %d bound %d ns after it was made (limit 30 s)", cid, I.Lo-t.Created.Hi)
	}
	t.Bound = true
	t.BoundAt = I
	if m.srvWriteFailed[r.Client] {
		// the success response never left (injected write error on the data connection): the
		// client does not know it is bound and the server has given up on the pipe
		t.Uncertain = true
	}
	// from now on this client connection is a byte pipe, not a STUN stream
	for c, cs := range m.tcpCtl {
		if cs.client == r.Client {
			cs.raw = true
			m.dataConns[cid] = c
		}
	}
	m.K.Stats.Probe("tcp_bind_ok")
}

func finSeen(c *TCPConn) bool {
	if c == nil {
		return false
	}
	c.mu.Lock()
	defer c.mu.Unlock()
	return c.in.finArrived || c.in.rst
}

// relayPeerConnClosed: the server closes its end of a peer connection. Once the connection is
// bound it is a pipe that lasts "until either side closes": with the allocation alive, the
// server running, no injected socket error and no FIN or RST from the peer or from the
// client's data connection, the server has no reason to close it (a bind timer that fires
// although the connection was bound in time does exactly that).
func (m *Monitor) relayPeerConnClosed(c *TCPConn) {
	now := m.K.Now()
	m.mu.Lock()
	defer m.mu.Unlock()
	if m.serverClosed || len(m.P.IOFaults) > 0 {
		return
	}
	for _, as := range m.M.Allocs {
		for _, a := range as {
			for cid, t := range a.TCPs {
				if t.Conn != c || !t.Bound || t.Uncertain {
					continue
				}
				if _, ended := m.ctlEnded[a.Client]; ended {
					return
				}
				if finSeen(c) || finSeen(m.dataConns[cid]) {
					return
				}
				if d := m.dataConns[cid]; d != nil {
					d.mu.Lock()
					dclosed := d.closed
					d.mu.Unlock()
					if dclosed {
						return // the data connection went first (its own reason is judged elsewhere)
					}
				}
				// whether the allocation was alive is judged at the next idle point: the request
				// that ends it (Refresh 0) is answered only after its connections are closed
				m.pipeClosed = append(m.pipeClosed, pipeClose{a, t, cid, now})
				return
			}
		}
	}
}

type pipeClose struct {
	a   *mAlloc
	t   *mTCP
	cid uint32
	at  int64
}

func (m *Monitor) judgePipeClosed() {
	for _, pc := range m.pipeClosed {
		if _, ended := m.ctlEnded[pc.a.Client]; ended || !m.M.DefinitelyAlive(pc.a, pc.at, pc.at) {
			continue
		}
		m.v([]string{"C16"}, "pipe-closed-unprompted", nil,
			"the server closed bound connection %d (%s, bound at %d, made at %d) at %d although the allocation is alive and neither the peer nor the client's data connection had closed",
			pc.cid, pc.t.Peer, pc.t.BoundAt.Hi, pc.t.Created.Lo, pc.at)
	}
	m.pipeClosed = nil
}

func (t *mTCP) peerGone() bool {
	if t.Conn == nil {
		return false
	}
	t.Conn.mu.Lock()
	defer t.Conn.mu.Unlock()
	return t.Conn.closed || t.Conn.in.finArrived || t.Conn.in.rst
}

// tcpIdle: unbound connections must be closed by the server 30 s after they were made.
func (m *Monitor) tcpIdle(now int64) {
	m.judgePipeClosed()
	for _, as := range m.M.Allocs {
		for _, a := range as {
			for cid, t := range a.TCPs {
				if t.Conn != nil && t.Closed && t.Bound && !t.Uncertain && !m.halfOpenReported[cid] && now > t.ClosedAt+5e9 && len(m.K.StallIntervals()) == 0 {
					// a bound pipe ends as a whole: the peer side has been closed for 5 s, the
					// client's data connection must not linger (it would swallow what is written to it)
					if d := m.dataConns[cid]; d != nil {
						d.mu.Lock()
						dopen := !d.closed
						d.mu.Unlock()
						if dopen {
							m.halfOpenReported[cid] = true
							m.v([]string{"C16", "C15"}, "pipe-half-open", nil, "peer connection %d (%s) of a bound pipe was closed at %d but the client's data connection is still open at %d", cid, t.Peer, t.ClosedAt, now)
						}
					}
				}
				if t.Conn == nil || t.Closed {
					continue
				}
				t.Conn.mu.Lock()
				closed := t.Conn.closed
				t.Conn.mu.Unlock()
				if closed {
					t.Closed = true
					t.ClosedAt = now
					continue
				}
				if t.Bound && t.Uncertain && !m.serverClosed && now > t.BoundAt.Hi+5e9 && m.K.Parked() == 0 && len(m.K.StallIntervals()) == 0 && !m.leakReported[fmt.Sprintf("unpiped:%d", cid)] {
					// the success response of its ConnectionBind could not be written, so no pipe was
					// set up - but the connection counts as bound: no timer will close it, no second
					// bind can have it. Given up by the server, it has to be closed by the server.
					m.leakReported[fmt.Sprintf("unpiped:%d", cid)] = true
					m.v([]string{"C16"}, "bound-not-piped", nil, "peer connection %d (%s) was marked bound at %d, the ConnectionBind success could not be written, and %d ns later the connection is still open: never piped, never timed out, not bindable again", cid, t.Peer, t.BoundAt.Hi, now-t.BoundAt.Hi)
					continue
				}
				if !m.serverClosed && !m.M.PossiblyAlive(a, now, now) && m.K.Parked() == 0 && !m.leakReported[fmt.Sprintf("peer-conn:%d", cid)] {
					// (C15) an allocation that has ended owns nothing: its peer connections - pending or
					// bound - went with it, whatever else its teardown ran into
					m.leakReported[fmt.Sprintf("peer-conn:%d", cid)] = true
					m.v([]string{"C15", "C16"}, "leak", kv("kind", "peer-conn"), "peer connection %d (%s, bound=%v) of the allocation of %s is still open at an idle point although that allocation has ended (%s)", cid, t.Peer, t.Bound, a.Client, a.EndCause)
					continue
				}
				if !t.Bound && now > m.M.widen(t.Created.Hi+bindTimeoutNS)+1e6 && !m.unboundReported[t.CID] {
					m.unboundReported[t.CID] = true
					m.v([]string{"C16", "C15"}, "unbound-not-closed", nil, "peer connection %d (%s) was never bound and is still open %d ns after it was made", t.CID, t.Peer, now-t.Created.Hi)
				}
			}
		}
	}
}

func (m *Monitor) OutboundDialedImpl(relayKey string, c *TCPConn) {
	now := m.K.Now()
	m.mu.Lock()
	defer m.mu.Unlock()
	m.relayConns = append(m.relayConns, &relayConn{Conn: c, RelayKey: relayKey, Peer: akey(c.raddr.IP, c.raddr.Port), Outbound: true, At: now})
}

func (m *Monitor) acceptedAtRelay(l *TCPListener, c *TCPConn) {
	now := m.K.Now()
	m.mu.Lock()
	defer m.mu.Unlock()
	m.relayConns = append(m.relayConns, &relayConn{Conn: c, RelayKey: l.Info.Addr, Peer: akey(c.raddr.IP, c.raddr.Port), At: now})
}

// afterClosePeerConns: C02 - a connection from a peer without permission must be closed and
// never announced; judged at the end of the run.
func (m *Monitor) finalTCP(now int64) {
	for _, rc := range m.relayConns {
		if rc.Used || rc.Outbound {
			continue
		}
		rc.Conn.mu.Lock()
		closed := rc.Conn.closed
		rc.Conn.mu.Unlock()
		if !closed && !m.serverClosed {
			m.v([]string{"C02", "C16"}, "unpermitted-tcp-kept-open", nil, "connection from %s accepted at relay %s was neither announced nor closed", rc.Peer, rc.RelayKey)
		}
	}
}

var _ = fmt.Sprintf
var _ net.Addr
