package sim

// splitmix64: the only source of randomness for plan generation.
type RNG struct{ s uint64 }

func NewRNG(seed uint64) *RNG { return &RNG{s: seed} }

func (r *RNG) U64() uint64 {
	r.s += 0x9e3779b97f4a7c15
	z := r.s
	z = (z ^ (z >> 30)) * 0xbf58476d1ce4e5b9
	z = (z ^ (z >> 27)) * 0x94d049bb133111eb
	return z ^ (z >> 31)
}

// Intn returns a value in [0,n).
func (r *RNG) Intn(n int) int {
	if n <= 0 {
		return 0
	}
	return int(r.U64() % uint64(n))
}

// Range returns a value in [lo,hi].
func (r *RNG) Range(lo, hi int) int {
	if hi <= lo {
		return lo
	}
	return lo + r.Intn(hi-lo+1)
}

func (r *RNG) I64(lo, hi int64) int64 {
	if hi <= lo {
		return lo
	}
	return lo + int64(r.U64()%uint64(hi-lo+1))
}

// Chance returns true with probability num/den.
func (r *RNG) Chance(num, den int) bool { return r.Intn(den) < num }

func (r *RNG) Pick(xs []string) string { return xs[r.Intn(len(xs))] }

func (r *RNG) PickInt(xs []int) int { return xs[r.Intn(len(xs))] }

func (r *RNG) PickI64(xs []int64) int64 { return xs[r.Intn(len(xs))] }

func (r *RNG) Bytes(n int) []byte {
	b := make([]byte, n)
	for i := 0; i < n; i += 8 {
		v := r.U64()
		for j := 0; j < 8 && i+j < n; j++ {
			b[i+j] = byte(v >> (8 * j))
		}
	}
	return b
}

// Mix derives a sub-seed from a seed and labels.
func Mix(seed uint64, labels ...uint64) uint64 {
	r := NewRNG(seed)
	x := r.U64()
	for _, l := range labels {
		r.s ^= l * 0x9e3779b97f4a7c15
		x ^= r.U64()
	}
	return x
}

func HashStr(s string) uint64 {
	var h uint64 = 1469598103934665603
	for i := 0; i < len(s); i++ {
		h ^= uint64(s[i])
		h *= 1099511628211
	}
	return h
}

// Perm returns a permutation of 0..n-1.
func (r *RNG) Perm(n int) []int {
	out := make([]int, n)
	for i := range out {
		out[i] = i
	}
	for i := n - 1; i > 0; i-- {
		j := r.Intn(i + 1)
		out[i], out[j] = out[j], out[i]
	}
	return out
}
