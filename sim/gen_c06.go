package sim

func init() {
	generators["C06"] = func(p *Plan, r *RNG) {
		if r.Chance(1, 12) {
			genC06Reconnect(p, r)
			return
		}
		if r.Chance(1, 14) {
			genC06ReconnectRace(p, r)
			return
		}
		withRace(p, r, 5, func() { genC06(p, r) })
	}
	generators["C07"] = func(p *Plan, r *RNG) { withRace(p, r, 5, func() { genC07(p, r) }) }
}

var lifetimesReq = []int64{-1, 1, 2, 5, 30, 59, 60, 600, 3599, 3600, 3601, 86400, 4294967295}

// genC06: allocation lifetime, refresh and deletion.
func genC06(p *Plan, r *RNG) {
	baseSrvConfig(p, r)
	p.Flavor = "lifetime"
	p.Cfg.AllocLifeS = r.PickInt([]int{0, 2, 3, 10, 60, 600, 1800, 3600, 7200, 10800})
	p.Cfg.PermTimeoutS = r.PickInt([]int{0, 0, 20000, 40000})
	nc := r.Range(1, 3)
	addClients(p, r, nc)
	addPeers(p, r, 2)
	peer := p.Peers[0].Addr
	for i := 0; i < nc; i++ {
		c := p.Clients[i].ID
		life := r.PickI64(lifetimesReq)
		p.Ops = append(p.Ops, Op{Actor: c, Kind: "allocate", At: gap(int64(r.Range(1, 500)) * ms), A: OpArgs{Lifetime: life}})
		if r.Chance(1, 6) {
			p.Ops[len(p.Ops)-1].A.Flags = []string{"life0"}
			p.Ops[len(p.Ops)-1].A.Lifetime = 0
		}
		p.Ops = append(p.Ops, Op{Actor: c, Kind: "createperm", At: gap(int64(r.Range(100, 900)) * ms), A: OpArgs{Peer: peer}})
	}
	n := r.Range(2, 10)
	for i := 0; i < n; i++ {
		c := p.Clients[r.Intn(nc)].ID
		switch r.Intn(8) {
		case 0, 1, 2:
			// refresh at an offset relative to the current deadline (inside the lifetime)
			off := -r.PickI64([]int64{1, sec, 2 * sec, 500 * ms, 10 * sec, 1000 * sec})
			if r.Chance(1, 5) {
				off = r.PickI64([]int64{0, 1, sec})
			}
			p.Ops = append(p.Ops, Op{Actor: c, Kind: "refresh", At: ref("alloc_deadline", off, c), A: OpArgs{Lifetime: r.PickI64(lifetimesReq)}})
		case 3:
			o := Op{Actor: c, Kind: "refresh", At: gap(int64(r.Range(1, 5000)) * ms), A: OpArgs{Lifetime: r.PickI64([]int64{0, 0, -1, 7})}}
			if r.Chance(1, 3) {
				// REQUESTED-ADDRESS-FAMILY in a Refresh: matching the allocation it is a normal
				// refresh, mismatching it is refused with 443 - and a refused request changes nothing
				o.A.Family = r.Pick([]string{"4", "6", "6"})
				o.A.Lifetime = r.PickI64([]int64{0, 1, 7, 600, -1})
			}
			p.Ops = append(p.Ops, o)
		case 4:
			// probe relay both ways around the deadline
			off := r.PickI64(edgeOffsets)
			p.Ops = append(p.Ops, Op{Actor: c, Kind: "send", At: ref("alloc_deadline", off, c), A: OpArgs{Peer: peer, Len: r.Range(20, 200)}})
		case 5:
			off := r.PickI64(edgeOffsets)
			p.Ops = append(p.Ops, Op{Actor: "p1", Kind: "peer_send", At: ref("alloc_deadline", off, c), A: OpArgs{Target: c, Len: r.Range(20, 200)}})
		case 6:
			// idle point exactly around the deadline: AllocationCount is read there
			p.Ops = append(p.Ops, Op{Actor: "", Kind: "wait", At: ref("alloc_deadline", r.PickI64([]int64{-1, 1, -sec, sec}), c)})
		case 7:
			// re-allocate on the same 5-tuple (after end: must start empty)
			p.Ops = append(p.Ops, Op{Actor: c, Kind: "allocate", At: ref("alloc_deadline", r.PickI64([]int64{1, sec, -sec}), c), A: OpArgs{Lifetime: r.PickI64(lifetimesReq)}})
			p.Ops = append(p.Ops, Op{Actor: c, Kind: "send", At: gap(int64(r.Range(100, 900)) * ms), A: OpArgs{Peer: peer, Len: 40}})
		}
	}
	// final probes after everything
	for i := 0; i < nc; i++ {
		c := p.Clients[i].ID
		p.Ops = append(p.Ops, Op{Actor: "", Kind: "wait", At: ref("alloc_deadline", 1, c)})
		p.Ops = append(p.Ops, Op{Actor: c, Kind: "refresh", At: gap(int64(r.Range(1, 2000)) * ms), A: OpArgs{Lifetime: 30}})
	}
	p.QuietNS = 40 * sec
	addFaults(p, r, faultLevel(r))
}

// genC07: permission / channel timeouts.
func genC07(p *Plan, r *RNG) {
	baseSrvConfig(p, r)
	p.Flavor = "timeouts"
	p.Cfg.PermTimeoutS = r.PickInt([]int{0, 2, 5, 30, 300, 301, 600, 1200})
	p.Cfg.ChanTimeoutS = r.PickInt([]int{0, 2, 7, 30, 600, 300, 2400})
	p.Cfg.AllocLifeS = 3 * 3600
	nc := r.Range(1, 2)
	addClients(p, r, nc)
	addPeers(p, r, 3)
	for i := 0; i < nc; i++ {
		p.Ops = append(p.Ops, Op{Actor: p.Clients[i].ID, Kind: "allocate", At: gap(int64(r.Range(1, 300)) * ms), A: OpArgs{Lifetime: -1}})
	}
	type bound struct{ n int; peer string }
	chans := map[string][]bound{}
	n := r.Range(4, 16)
	for i := 0; i < n; i++ {
		c := p.Clients[r.Intn(nc)].ID
		pi := r.Intn(len(p.Peers))
		peer := p.Peers[pi].Addr
		pid := p.Peers[pi].ID
		pip := mustUDPAddr(peer).IP.String()
		switch r.Intn(10) {
		case 0, 1:
			o := Op{Actor: c, Kind: "createperm", At: gap(int64(r.Range(50, 3000)) * ms), A: OpArgs{Peer: peer}}
			if r.Chance(1, 3) {
				// one request naming several peers (what a client's periodic refresh of its whole
				// permission set looks like): each of them gets its own full timeout, and its own expiry
				o.A.Peers = []string{peer}
				for k := 1; k < len(p.Peers); k++ {
					if r.Chance(2, 3) {
						o.A.Peers = append(o.A.Peers, p.Peers[(pi+k)%len(p.Peers)].Addr)
					}
				}
				if r.Chance(1, 2) {
					for a, b := 0, len(o.A.Peers)-1; a < b; a, b = a+1, b-1 {
						o.A.Peers[a], o.A.Peers[b] = o.A.Peers[b], o.A.Peers[a]
					}
				}
			}
			p.Ops = append(p.Ops, o)
		case 2:
			ch := 0x4000 + r.Intn(4)
			p.Ops = append(p.Ops, Op{Actor: c, Kind: "chanbind", At: gap(int64(r.Range(50, 3000)) * ms), A: OpArgs{Peer: peer, Chan: ch}})
			chans[c] = append(chans[c], bound{ch, peer})
		case 3:
			// refresh the permission near its deadline
			p.Ops = append(p.Ops, Op{Actor: c, Kind: "createperm", At: ref("perm_deadline", -r.PickI64([]int64{1, sec, 100 * ms}), c, pip), A: OpArgs{Peer: peer}})
		case 4:
			if bs := chans[c]; len(bs) > 0 {
				b := bs[r.Intn(len(bs))]
				p.Ops = append(p.Ops, Op{Actor: c, Kind: "chanbind", At: ref("chan_deadline", -r.PickI64([]int64{1, sec, 100 * ms}), c, itoa(b.n)), A: OpArgs{Peer: b.peer, Chan: b.n}})
			}
		case 5:
			p.Ops = append(p.Ops, Op{Actor: c, Kind: "send", At: ref("perm_deadline", r.PickI64(edgeOffsets), c, pip), A: OpArgs{Peer: peer, Len: r.Range(10, 300)}})
		case 6:
			p.Ops = append(p.Ops, Op{Actor: pid, Kind: "peer_send", At: ref("perm_deadline", r.PickI64(edgeOffsets), c, pip), A: OpArgs{Target: c, Len: r.Range(10, 300)}})
		case 7:
			if bs := chans[c]; len(bs) > 0 {
				b := bs[r.Intn(len(bs))]
				p.Ops = append(p.Ops, Op{Actor: c, Kind: "chandata", At: ref("chan_deadline", r.PickI64(edgeOffsets), c, itoa(b.n)), A: OpArgs{Chan: b.n, Len: r.Range(10, 300)}})
			}
		case 8:
			if bs := chans[c]; len(bs) > 0 {
				b := bs[r.Intn(len(bs))]
				// after expiry the number / the peer are free: bind the number to another peer
				other := p.Peers[(pi+1)%len(p.Peers)].Addr
				p.Ops = append(p.Ops, Op{Actor: c, Kind: "chanbind", At: ref("chan_deadline", r.PickI64([]int64{1, sec, -sec}), c, itoa(b.n)), A: OpArgs{Peer: other, Chan: b.n}})
			}
		case 9:
			// same IP, other port
			p.Ops = append(p.Ops, Op{Actor: pid, Kind: "peer_send", At: gap(int64(r.Range(50, 2000)) * ms), A: OpArgs{Target: c, Len: 33, N: 6000 + r.Intn(5)}})
		}
	}
	p.QuietNS = 10 * sec
	addFaults(p, r, faultLevel(r))
}

// genC06Reconnect: a stream client loses its control connection and connects again at once from
// the same address and port (a client that restarts, a NAT that keeps its mapping) and
// allocates - while the server is still busy taking down what belonged to the old connection.
// The allocation made over the new connection is a new one: it lives its own lifetime.
func genC06Reconnect(p *Plan, r *RNG) {
	baseSrvConfig(p, r)
	p.Flavor = "tcp-reconnect"
	p.Cfg.Listener = "tcp"
	p.Cfg.AllocLifeS = r.PickInt([]int{0, 600})
	addClients(p, r, 2)
	addPeers(p, r, 1)
	c, c2 := p.Clients[0].ID, p.Clients[1].ID
	add := func(o Op) int {
		p.Ops = append(p.Ops, o)
		return len(p.Ops)
	}
	add(Op{Actor: c, Kind: "allocate", At: gap(int64(r.Range(10, 200)) * ms), A: OpArgs{Lifetime: -1}})
	add(Op{Actor: c2, Kind: "allocate", At: gap(int64(r.Range(10, 200)) * ms), A: OpArgs{Lifetime: -1}})
	add(Op{Actor: c, Kind: "createperm", At: gap(200 * ms), A: OpArgs{Peer: p.Peers[0].Addr}})
	if r.Chance(1, 2) {
		// the old connection's allocation is already gone when the connection ends (released by
		// the client): what the old connection's clean-up finds on that 5-tuple is not its own
		add(Op{Actor: c, Kind: "refresh", At: gap(int64(r.Range(100, 600)) * ms), A: OpArgs{Lifetime: 0}})
	}
	x := add(Op{Actor: c, Kind: "tcp_reconnect", At: gap(int64(r.Range(200, 2000)) * ms)})
	if r.Chance(3, 4) {
		// the old connection's clean-up is slow
		cls := r.Pick([]string{"lock", "lock", "unlock", "log:*", "sock:listener-conn:Close", "cb:OnAllocationDeleted"})
		p.Stalls = append(p.Stalls, Stall{M: Match{Class: cls, Args: "*", Nth: r.Range(1, 4)}, ParkNS: r.PickI64([]int64{100 * ms, sec, 5 * sec}), AfterOp: x})
	}
	if r.Chance(1, 2) {
		// over the new connection the client first releases what it still holds on this 5-tuple
		// (the server may not have seen the old connection's end yet): a Refresh 0 that is
		// answered with success has removed the allocation, whichever connection made it
		add(Op{Actor: c, Kind: "refresh", At: gap(int64(r.Range(1, 300)) * ms), A: OpArgs{Lifetime: 0}})
		if r.Chance(1, 2) {
			// ... and the old connection's clean-up is held up before it has taken the allocation
			// out of the table (the first lock it takes in the allocation manager)
			p.Stalls = []Stall{{M: Match{Class: "lock", Args: "allocation_manager.go:*", Nth: 1}, ParkNS: r.PickI64([]int64{sec, 5 * sec}), AfterOp: x}}
		}
	}
	add(Op{Actor: c, Kind: "allocate", At: gap(int64(r.Range(1, 400)) * ms), A: OpArgs{Lifetime: -1}})
	add(Op{Actor: c, Kind: "createperm", At: gap(int64(r.Range(100, 900)) * ms), A: OpArgs{Peer: p.Peers[0].Addr}})
	add(Op{Actor: "", Kind: "wait", At: gap(6 * sec)})
	add(Op{Actor: c, Kind: "refresh", At: gap(500 * ms), A: OpArgs{Lifetime: 600}})
	add(Op{Actor: p.Peers[0].ID, Kind: "peer_send", At: gap(300 * ms), A: OpArgs{Target: c, Len: 40}})
	add(Op{Actor: c2, Kind: "binding", At: gap(300 * ms)})
	p.QuietNS = 10 * sec
}

// genC06ReconnectRace: the Allocate of the old connection is still in progress (the relay
// address generator is slow) when the client has reconnected from the same address and
// allocates over the new connection: two Allocate handlers for one 5-tuple at once. One
// allocation comes of it, owned by one connection; nothing of the other stays behind.
func genC06ReconnectRace(p *Plan, r *RNG) {
	baseSrvConfig(p, r)
	p.Flavor = "tcp-reconnect-race"
	p.Cfg.Listener = "tcp"
	p.Cfg.AllocLifeS = r.PickInt([]int{0, 30, 600})
	addClients(p, r, 2)
	addPeers(p, r, 1)
	c, c2 := p.Clients[0].ID, p.Clients[1].ID
	add := func(o Op) int {
		p.Ops = append(p.Ops, o)
		return len(p.Ops)
	}
	add(Op{Actor: c, Kind: "binding", At: gap(int64(r.Range(10, 100)) * ms)})
	add(Op{Actor: c, Kind: "refresh", At: gap(100 * ms), A: OpArgs{Lifetime: 600}}) // learns a nonce (answered with an error: no allocation)
	a := add(Op{Actor: c, Kind: "allocate", At: gap(300 * ms), A: OpArgs{Lifetime: -1}})
	park := r.PickI64([]int64{300 * ms, sec, 3 * sec})
	cls := r.Pick([]string{"cb:AllocatePacketConn", "cb:AllocatePacketConn", "cb:Auth", "cb:Quota", "lock"})
	p.Stalls = append(p.Stalls, Stall{M: Match{Class: cls, Args: "*", Nth: 1}, ParkNS: park, AfterOp: a})
	add(Op{Actor: c, Kind: "tcp_reconnect", At: gap(r.PickI64([]int64{100 * ms, park / 2}))})
	add(Op{Actor: c, Kind: "allocate", At: gap(int64(r.Range(1, 100)) * ms), A: OpArgs{Lifetime: -1}})
	add(Op{Actor: "", Kind: "wait", At: gap(park + sec)})
	add(Op{Actor: c, Kind: "refresh", At: gap(300 * ms), A: OpArgs{Lifetime: 600}})
	add(Op{Actor: c, Kind: "createperm", At: gap(300 * ms), A: OpArgs{Peer: p.Peers[0].Addr}})
	add(Op{Actor: p.Peers[0].ID, Kind: "peer_send", At: gap(300 * ms), A: OpArgs{Target: c, Len: 40}})
	add(Op{Actor: c2, Kind: "allocate", At: gap(200 * ms), A: OpArgs{Lifetime: -1}})
	if r.Chance(1, 2) {
		add(Op{Actor: c, Kind: "refresh", At: gap(500 * ms), A: OpArgs{Lifetime: 0}})
	}
	p.QuietNS = int64(r.PickInt([]int{10, 700})) * sec
}
