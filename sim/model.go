package sim

import (
	"net"
	"sort"
)

// refturn: a small executable reference model of a TURN server's authorisation state,
// written from the property statements and RFC 5766/6062/6156. No I/O, no goroutines.
// All instants are virtual nanoseconds since the start of the run. A state change caused by
// a request happened at some instant of [handed-to-server, response-written]; queries
// answer "possibly" / "definitely" over an interval of instants.

type ivl struct{ Lo, Hi int64 }

type period struct {
	From  ivl // installed somewhere inside
	Until ivl // expires somewhere inside (raw; Hi is widened by overlapping stalls at query time)
	// Gone: the instant the library reported the entry deleted (its deleted callback was
	// entered). A stalled expiry may come late, but once the removal is being reported the
	// entry authorises nothing any more, however long the operator's callback takes.
	Gone int64
}

func (m *Model) untilHi(p *period) int64 {
	hi := m.widen(p.Until.Hi)
	if p.Gone != 0 && p.Gone < hi {
		hi = p.Gone
	}
	return hi
}

// GonePerm / GoneChan: a deleted event for the entry of (client 5-tuple, relay, peer) at instant e.
// Only periods certainly installed before e are capped: an install whose handling interval
// contains e may have come after the removal.
func (m *Model) GonePerm(client, relayKey, ip string, e int64) {
	for _, a := range m.Allocs[client] {
		if a.RelayKey != relayKey {
			continue
		}
		for _, p := range a.Perms[ip] {
			if p.From.Hi < e && p.Gone == 0 {
				p.Gone = e
			}
		}
	}
}

func (m *Model) GoneChan(client, relayKey, addr string, n uint16, e int64) {
	for _, a := range m.Allocs[client] {
		if a.RelayKey != relayKey {
			continue
		}
		for _, c := range a.Chans {
			if c.N == n && c.Addr == addr && c.From.Hi < e && c.Gone == 0 {
				c.Gone = e
			}
		}
	}
}

type chanPeriod struct {
	N    uint16
	Addr string // ip:port
	period
}

type mTCP struct {
	CID      uint32
	Peer     string
	Created  ivl
	Outbound bool
	Bound    bool
	BoundAt  ivl
	Closed   bool
	ClosedAt int64
	Conn     *TCPConn // the server-side simnet endpoint toward the peer
	ForeignTried bool  // a ConnectionBind by another user was refused for it
	Uncertain    bool  // the write of its ConnectionBind success response failed: whether a pipe exists is not judged
}

type mAlloc struct {
	TrailPerms map[string][]*period // permissions named only behind MESSAGE-INTEGRITY (see Monitor.respCreatePerm)
	Seq      int
	Client   string // client transport address "ip:port" (5-tuple; listener fixed per world)
	User     string
	Relay    *net.UDPAddr
	RelayKey string
	TCP      bool
	Family   int
	Created  ivl
	Deadline ivl
	End      *ivl // explicit end (Refresh 0, teardown) if any
	EndCause string
	TID      [12]byte
	RespSig  string
	Perms    map[string][]*period
	Chans    []*chanPeriod
	TCPs     map[uint32]*mTCP
	DeletedEvents int
	CreatedEvents int
	Uncertain bool // a response write failed while this allocation was being changed
	EndFirm   bool // End.Hi is an instant by which the removal was complete (a Refresh 0 success response): stalls do not extend it
}

type Model struct {
	PermTimeout  int64
	ChanTimeout  int64
	DefaultLife  int64
	Stalls       func() []ivl // park intervals so far (from the kernel)
	Allocs       map[string][]*mAlloc // by client address, oldest first
	ByRelay      map[string][]*mAlloc
	seq          int
}

func NewModel(perm, ch, life int64) *Model {
	return &Model{PermTimeout: perm, ChanTimeout: ch, DefaultLife: life, Allocs: map[string][]*mAlloc{}, ByRelay: map[string][]*mAlloc{}}
}

// widen extends an upper bound over every stall interval that overlaps it: a parked
// goroutine may be the expiry callback itself or may hold a lock the callback needs.
func (m *Model) widen(hi int64) int64 {
	if m.Stalls == nil {
		return hi
	}
	st := m.Stalls()
	for changed := true; changed; {
		changed = false
		for _, s := range st {
			if s.Lo <= hi && s.Hi > hi {
				hi = s.Hi
				changed = true
			}
		}
	}
	return hi
}

func (a *mAlloc) endLo() int64 {
	lo := a.Deadline.Lo
	if a.End != nil && a.End.Lo < lo {
		lo = a.End.Lo
	}
	return lo
}

func (m *Model) endHi(a *mAlloc) int64 {
	hi := m.widen(a.Deadline.Hi)
	if a.End != nil {
		eh := a.End.Hi
		if !a.EndFirm {
			eh = m.widen(eh)
		}
		if eh < hi {
			hi = eh
		}
	}
	return hi
}

// PossiblyAlive: the allocation may exist at some instant of [t1,t2].
func (m *Model) PossiblyAlive(a *mAlloc, t1, t2 int64) bool {
	return a.Created.Lo <= t2 && m.endHi(a) >= t1
}

// DefinitelyAlive: the allocation exists at every instant of [t1,t2].
func (m *Model) DefinitelyAlive(a *mAlloc, t1, t2 int64) bool {
	return !a.Uncertain && a.Created.Hi < t1 && a.endLo() > t2
}

// Current returns the allocations of a 5-tuple that may be alive during [t1,t2].
func (m *Model) Current(client string, t1, t2 int64) []*mAlloc {
	var out []*mAlloc
	for _, a := range m.Allocs[client] {
		if m.PossiblyAlive(a, t1, t2) {
			out = append(out, a)
		}
	}
	return out
}

func (m *Model) NewAlloc(client, user string, relay *net.UDPAddr, tcp bool, I ivl, life int64) *mAlloc {
	m.seq++
	a := &mAlloc{Seq: m.seq, Client: client, User: user, Relay: relay, RelayKey: ustr(relay), TCP: tcp, Family: ipFamily(relay.IP),
		Created: I, Deadline: ivl{I.Lo + life, I.Hi + life}, Perms: map[string][]*period{}, TCPs: map[uint32]*mTCP{}}
	m.Allocs[client] = append(m.Allocs[client], a)
	m.ByRelay[a.RelayKey] = append(m.ByRelay[a.RelayKey], a)
	return a
}

func (m *Model) EndAlloc(a *mAlloc, I ivl, cause string) {
	if a.End == nil || I.Lo < a.End.Lo {
		e := I
		if a.End != nil && a.End.Hi < e.Hi {
			e.Hi = a.End.Hi
		}
		a.End = &e
		a.EndCause = cause
	}
}

func (m *Model) periodPossibly(a *mAlloc, p *period, t1, t2 int64) bool {
	return p.From.Lo <= t2 && m.untilHi(p) >= t1 && m.PossiblyAlive(a, maxI(t1, p.From.Lo), minI(t2, m.untilHi(p)))
}

func (m *Model) periodDefinitely(a *mAlloc, p *period, t1, t2 int64) bool {
	return p.From.Hi < t1 && p.Until.Lo > t2 && m.DefinitelyAlive(a, t1, t2)
}

func maxI(a, b int64) int64 {
	if a > b {
		return a
	}
	return b
}
func minI(a, b int64) int64 {
	if a < b {
		return a
	}
	return b
}

// install records a successful install/refresh processed during I with full timeout T.
func (m *Model) install(a *mAlloc, list []*period, I ivl, T int64) []*period {
	for _, p := range list {
		if p.From.Hi <= I.Lo && p.Until.Lo > I.Hi {
			// definitely existed during the whole handling: a pure refresh
			p.Until = ivl{I.Lo + T, I.Hi + T}
			return list
		}
	}
	// new entry, or a refresh racing with expiry: keep the old period, add a new one
	return append(list, &period{From: I, Until: ivl{I.Lo + T, I.Hi + T}})
}

func (m *Model) InstallPerm(a *mAlloc, ip string, I ivl) {
	a.Perms[ip] = m.install(a, a.Perms[ip], I, m.PermTimeout)
}

func (m *Model) PermPossibly(a *mAlloc, ip string, t1, t2 int64) bool {
	for _, p := range a.Perms[ip] {
		if m.periodPossibly(a, p, t1, t2) {
			return true
		}
	}
	return false
}

func (m *Model) PermDefinitely(a *mAlloc, ip string, t1, t2 int64) bool {
	for _, p := range a.Perms[ip] {
		if m.periodDefinitely(a, p, t1, t2) {
			return true
		}
	}
	return false
}

// PermDeadline: latest known expiry (raw lower bound) of the permission, for symbolic times.
func (m *Model) PermDeadline(a *mAlloc, ip string) (int64, bool) {
	ps := a.Perms[ip]
	if len(ps) == 0 {
		return 0, false
	}
	best := ps[0]
	for _, p := range ps {
		if p.Until.Lo > best.Until.Lo {
			best = p
		}
	}
	return best.Until.Lo, true
}

func (m *Model) InstallChan(a *mAlloc, n uint16, addr string, I ivl) {
	for _, c := range a.Chans {
		if c.N == n && c.Addr == addr && c.From.Hi <= I.Lo && c.Until.Lo > I.Hi {
			c.Until = ivl{I.Lo + m.ChanTimeout, I.Hi + m.ChanTimeout}
			return
		}
	}
	a.Chans = append(a.Chans, &chanPeriod{N: n, Addr: addr, period: period{From: I, Until: ivl{I.Lo + m.ChanTimeout, I.Hi + m.ChanTimeout}}})
}

// ChanPossibly: number n may be bound to addr at some instant of [t1,t2].
func (m *Model) ChanPossibly(a *mAlloc, n uint16, addr string, t1, t2 int64) bool {
	for _, c := range a.Chans {
		if c.N == n && c.Addr == addr && m.periodPossibly(a, &c.period, t1, t2) {
			return true
		}
	}
	return false
}

func (m *Model) ChanDefinitely(a *mAlloc, n uint16, addr string, t1, t2 int64) bool {
	for _, c := range a.Chans {
		if c.N == n && c.Addr == addr && m.periodDefinitely(a, &c.period, t1, t2) {
			return true
		}
	}
	return false
}

// ChanAddrsPossibly lists the addresses number n may be bound to during [t1,t2].
func (m *Model) ChanAddrsPossibly(a *mAlloc, n uint16, t1, t2 int64) []string {
	var out []string
	for _, c := range a.Chans {
		if c.N == n && m.periodPossibly(a, &c.period, t1, t2) {
			out = append(out, c.Addr)
		}
	}
	return out
}

// conflicting bindings that definitely hold throughout [t1,t2]
func (m *Model) ChanConflictDefinitely(a *mAlloc, n uint16, addr string, t1, t2 int64) (string, bool) {
	for _, c := range a.Chans {
		if !m.periodDefinitely(a, &c.period, t1, t2) {
			continue
		}
		if c.N == n && c.Addr != addr {
			return "number-bound-to-other-peer", true
		}
		if c.N != n && c.Addr == addr {
			return "peer-bound-to-other-number", true
		}
	}
	return "", false
}

func (m *Model) ChanConflictPossibly(a *mAlloc, n uint16, addr string, t1, t2 int64) bool {
	for _, c := range a.Chans {
		if !m.periodPossibly(a, &c.period, t1, t2) {
			continue
		}
		if (c.N == n) != (c.Addr == addr) {
			return true
		}
	}
	return false
}

func (m *Model) ChanDeadline(a *mAlloc, n uint16) (int64, bool) {
	var best *chanPeriod
	for _, c := range a.Chans {
		if c.N == n && (best == nil || c.Until.Lo > best.Until.Lo) {
			best = c
		}
	}
	if best == nil {
		return 0, false
	}
	return best.Until.Lo, true
}

// ChanOfAddrDefinitely: some number is definitely bound to addr throughout [t1,t2].
func (m *Model) ChanOfAddrDefinitely(a *mAlloc, addr string, t1, t2 int64) (uint16, bool) {
	for _, c := range a.Chans {
		if c.Addr == addr && m.periodDefinitely(a, &c.period, t1, t2) {
			return c.N, true
		}
	}
	return 0, false
}

func (m *Model) ChanOfAddrPossibly(a *mAlloc, addr string, t1, t2 int64) bool {
	for _, c := range a.Chans {
		if c.Addr == addr && m.periodPossibly(a, &c.period, t1, t2) {
			return true
		}
	}
	return false
}

// Snapshot is a canonical rendering of the abstract state (for distinct-state counting).
func (m *Model) Snapshot(now int64) string {
	var keys []string
	for c := range m.Allocs {
		keys = append(keys, c)
	}
	sort.Strings(keys)
	s := ""
	for _, c := range keys {
		for _, a := range m.Allocs[c] {
			if !m.PossiblyAlive(a, now, now) {
				continue
			}
			np, nc := 0, 0
			for ip := range a.Perms {
				if m.PermPossibly(a, ip, now, now) {
					np++
				}
			}
			for _, ch := range a.Chans {
				if m.periodPossibly(a, &ch.period, now, now) {
					nc++
				}
			}
			s += c + ":" + itoa(np) + "p" + itoa(nc) + "c" + itoa(len(a.TCPs)) + "t;"
		}
	}
	return s
}

func itoa(i int) string {
	if i == 0 {
		return "0"
	}
	neg := i < 0
	if neg {
		i = -i
	}
	var b [20]byte
	p := len(b)
	for i > 0 {
		p--
		b[p] = byte('0' + i%10)
		i /= 10
	}
	if neg {
		p--
		b[p] = '-'
	}
	return string(b[p:])
}
