package sim

import (
	"github.com/pion/stun/v3"
)

// ctlStream reassembles a client's TCP control connection (server side view).
type ctlStream struct {
	client  string
	buf     []byte
	raw     bool  // bound data connection: a byte pipe from now on
	garbage bool  // bytes that cannot start a frame were seen: the server may drop the connection
	endedAt int64 // server-side read returned an error / EOF, or the server closed it (0 = open)
}

func (m *Monitor) TCPReadCall(c *TCPConn) {
	if c.Role == "listener-conn" {
		m.mu.Lock()
		m.readCalls["tcp:"+c.Name]++
		m.mu.Unlock()
	}
}

func (m *Monitor) TCPRead(c *TCPConn, b []byte) {
	if c.Role != "listener-conn" {
		return
	}
	now := m.K.Now()
	m.mu.Lock()
	defer m.mu.Unlock()
	cs := m.tcpCtl[c]
	if cs == nil {
		cs = &ctlStream{client: akey(c.raddr.IP, c.raddr.Port)}
		m.tcpCtl[c] = cs
	}
	if cs.garbage || cs.raw {
		return
	}
	cs.buf = append(cs.buf, b...)
	for {
		// same acceptance rule as the packetiser under test: a valid channel number makes a
		// ChannelData frame; anything else must carry the STUN magic cookie (the two leading
		// bits are not inspected by it), else the stream is garbage and will be dropped
		if len(cs.buf) < 4 {
			return
		}
		isChan := cs.buf[0]&0xC0 == 0x40
		if !isChan {
			if len(cs.buf) < 20 {
				return
			}
			if !(cs.buf[4] == 0x21 && cs.buf[5] == 0x12 && cs.buf[6] == 0xA4 && cs.buf[7] == 0x42) {
				cs.garbage = true
				m.ctlEnd(cs, now)
				return
			}
		}
		n, ok := refFrameLen(cs.buf)
		if !ok || n > len(cs.buf) {
			return
		}
		frame := cs.buf[:n]
		cs.buf = cs.buf[n:]
		m.curSrc = "tcp:" + c.Name
		m.srvRecv(cs.client, frame, len(frame) < m.InboundMTU, now) // the read loop drops what does not fit its buffer, on streams too
	}
}

// refFrameLen: reference framing for TURN over a stream (RFC 5766 11.5 / RFC 5389 7.2.2).
func refFrameLen(b []byte) (int, bool) {
	if len(b) < 4 {
		return 0, false
	}
	if b[0]&0xC0 != 0x40 { // STUN (identified by its cookie; the caller checks it)
		return 20 + (int(b[2])<<8 | int(b[3])), true
	}
	l := int(b[2])<<8 | int(b[3])
	return 4 + (l+3)/4*4, true
}

func (m *Monitor) TCPWrite(c *TCPConn, b []byte) {
	if c.Role != "listener-conn" {
		return
	}
	now := m.K.Now()
	m.mu.Lock()
	defer m.mu.Unlock()
	if cs := m.tcpCtl[c]; cs != nil && cs.raw {
		return
	}
	m.srvSend(akey(c.raddr.IP, c.raddr.Port), b, now)
}

func (m *Monitor) TCPAccepted(l *TCPListener, c *TCPConn) {
	if l.Role == "relay" {
		m.acceptedAtRelay(l, c)
	}
}

func (m *Monitor) ctlEnd(cs *ctlStream, now int64) {
	if cs.endedAt == 0 {
		cs.endedAt = now
		m.ctlEnded[cs.client] = now
		for _, a := range m.M.Allocs[cs.client] {
			m.markEnding(a, now, "control-connection")
		}
	}
}

// TCPReadEnd: a Read on a simnet connection returned an error or EOF.
func (m *Monitor) TCPReadEnd(c *TCPConn, err error) {
	if c.Role != "listener-conn" {
		return
	}
	now := m.K.Now()
	m.mu.Lock()
	defer m.mu.Unlock()
	cs := m.tcpCtl[c]
	if cs == nil {
		cs = &ctlStream{client: akey(c.raddr.IP, c.raddr.Port)}
		m.tcpCtl[c] = cs
	}
	m.ctlEnd(cs, now)
}

func (m *Monitor) TCPClosed(c *TCPConn, how string) {
	if c.Role == "relay-out" || c.Role == "relay-conn" {
		m.relayPeerConnClosed(c)
		return
	}
	if c.Role != "listener-conn" {
		return
	}
	now := m.K.Now()
	m.mu.Lock()
	defer m.mu.Unlock()
	cs := m.tcpCtl[c]
	if cs == nil {
		cs = &ctlStream{client: akey(c.raddr.IP, c.raddr.Port)}
		m.tcpCtl[c] = cs
	}
	m.ctlEnd(cs, now)
}

func (m *Monitor) respConnect(r *mReq, msg *stun.Message, ok bool, code int, I ivl) {
	m.doRespConnect(r, msg, ok, code, I)
}
func (m *Monitor) respConnBind(r *mReq, msg *stun.Message, ok bool, code int, I ivl) {
	m.doRespConnBind(r, msg, ok, code, I)
}
func (m *Monitor) onConnAttempt(to string, msg *stun.Message, now int64) { m.doConnAttempt(to, msg, now) }

func (m *Monitor) OutboundDialed(relayKey string, c *TCPConn) { m.OutboundDialedImpl(relayKey, c) }
func (m *Monitor) ControlClosed(client string)               {}
