package sim

import (
	"fmt"
	"os"
	"strings"
	"sync"

	"github.com/pion/logging"
)

// SimLoggerFactory hands the library loggers whose every call is a recorded yield point.
type SimLoggerFactory struct {
	K       *Kernel
	mu      sync.Mutex
	Errors  []string // rendered Warn/Error lines (diagnostics; bounded)
	ErrKeys map[string]int
	Keep    bool
}

func NewLoggerFactory(k *Kernel, keep bool) *SimLoggerFactory {
	return &SimLoggerFactory{K: k, ErrKeys: map[string]int{}, Keep: keep}
}

func (f *SimLoggerFactory) NewLogger(scope string) logging.LeveledLogger {
	return &simLogger{f: f, scope: scope}
}

type simLogger struct {
	f     *SimLoggerFactory
	scope string
}

var traceLogs = os.Getenv("VERIF_TRACE") != ""

func (l *simLogger) at(level, format string, args []any) {
	if l.f.K.Free {
		return
	}
	if traceLogs {
		fmt.Fprintf(os.Stderr, "TRACE %d %s %s\n", l.f.K.Now(), level, safeSprintf(format, args))
	}
	if level == "W" || level == "E" {
		l.f.mu.Lock()
		l.f.ErrKeys[level+":"+format]++
		if l.f.Keep && len(l.f.Errors) < 200 {
			l.f.Errors = append(l.f.Errors, fmt.Sprintf("%d %s %s", l.f.K.Now(), level, safeSprintf(format, args)))
		}
		l.f.mu.Unlock()
	}
	l.f.K.YieldT("log:"+format, l.scope, fmt.Sprintf("%016x", HashStr(safeSprintf(format, args))))
}

func safeSprintf(format string, args []any) (s string) {
	defer func() {
		if r := recover(); r != nil {
			s = format + " <render panic>"
		}
	}()
	if len(args) == 0 {
		return format
	}
	return fmt.Sprintf(format, args...)
}

func (l *simLogger) Trace(msg string)                  { l.at("T", msg, nil) }
func (l *simLogger) Tracef(format string, args ...any) { l.at("T", format, args) }
func (l *simLogger) Debug(msg string)                  { l.at("D", msg, nil) }
func (l *simLogger) Debugf(format string, args ...any) { l.at("D", format, args) }
func (l *simLogger) Info(msg string)                   { l.at("I", msg, nil) }
func (l *simLogger) Infof(format string, args ...any)  { l.at("I", format, args) }
func (l *simLogger) Warn(msg string)                   { l.at("W", msg, nil) }
func (l *simLogger) Warnf(format string, args ...any)  { l.at("W", format, args) }
func (l *simLogger) Error(msg string)                  { l.at("E", msg, nil) }
func (l *simLogger) Errorf(format string, args ...any) { l.at("E", format, args) }

func (f *SimLoggerFactory) ErrCount(substr string) int {
	f.mu.Lock()
	defer f.mu.Unlock()
	n := 0
	for k, v := range f.ErrKeys {
		if strings.Contains(k, substr) {
			n += v
		}
	}
	return n
}
