package sim

import (
	"fmt"
	"io"
	"net"
	"os"
	"strconv"
	"sync"
	"syscall"
	"time"
)

// ---------------------------------------------------------------------------------------
var debugWrites = os.Getenv("VERIF_DEBUG_WRITES") == "1"

// simnet: the only transport any party sees. UDP sockets, TCP listeners and streams, all
// blocking done on channels created inside the bubble.
// ---------------------------------------------------------------------------------------

type Dgram struct {
	ID      int
	From    *net.UDPAddr
	To      *net.UDPAddr
	Payload []byte
	SentAt  int64
	Flow    string
	What    string
	Nth     int
}

// Observer receives ground-truth socket events (implemented by the monitors).
type Observer interface {
	UDPReadCall(s *UDPSock)
	UDPRead(s *UDPSock, d *Dgram, n int)
	UDPWrite(s *UDPSock, to *net.UDPAddr, b []byte)
	UDPDeliverScripted(s *UDPSock, d *Dgram)
	SockOpen(info *SockInfo)
	SockClose(info *SockInfo)
	TCPRead(c *TCPConn, b []byte)
	TCPReadCall(c *TCPConn)
	TCPWrite(c *TCPConn, b []byte)
	TCPAccepted(l *TCPListener, c *TCPConn)
	TCPClosed(c *TCPConn, how string)
	TCPReadEnd(c *TCPConn, err error)
	IOFaulted(role, op, addr string)
}

type SockInfo struct {
	ID         int
	Kind       string // udp | tcp-listener | tcp-conn
	Role       string // listener | relay | client | peer | ...
	Owner      string // free-form, e.g. user id for relay sockets
	Addr       string
	Remote     string
	OpenedAt   int64
	ClosedAt   int64
	Open       bool
	CloseCount int
}

type Net struct {
	K   *Kernel
	Obs Observer

	mu        sync.RWMutex
	udp       map[string]*UDPSock
	OpaqueStreams bool // stream contents are not part of the canonical log (see TCPConn.Write)
	EOFWithData bool // stream reads return their last bytes together with io.EOF (Extra "eof_with_data")
	SilentTCP   string // "ip:port" that never answers a SYN (a host behind a filter that drops): Extra "silent_peer"
	SilentDials []int64 // instants at which somebody dialled it
	tcpl      map[string][]*TCPListener // several listeners on one address only with SO_REUSEPORT on all of them
	tcplRR    map[string]int
	names     map[string]string // "ip:port" -> actor name; "ip" -> actor name
	Socks     []*SockInfo
	flowCount map[string]int
	ioCount   map[string]int
	dgramID   int
	ephemeral map[string]int
	connID    int
	LatCS     int64
	LatSP     int64
	ServerIPs map[string]bool
	Unbound   int // datagrams delivered to nobody
}

func NewNet(k *Kernel) *Net {
	return &Net{K: k, udp: map[string]*UDPSock{}, tcpl: map[string][]*TCPListener{}, tcplRR: map[string]int{}, names: map[string]string{},
		flowCount: map[string]int{}, ioCount: map[string]int{}, ephemeral: map[string]int{}, ServerIPs: map[string]bool{},
		LatCS: k.Plan.Cfg.LatCSns, LatSP: k.Plan.Cfg.LatSPns, EOFWithData: k.Plan.Cfg.Extra["eof_with_data"] == 1, SilentTCP: silentPeerOf(k.Plan)}
}

const silentPeerAddr = "10.0.2.88:9"

func silentPeerOf(p *Plan) string {
	if p.Cfg.Extra["silent_peer"] == 1 {
		return silentPeerAddr
	}
	return ""
}

func akey(ip net.IP, port int) string { return net.JoinHostPort(ip.String(), strconv.Itoa(port)) }

func (n *Net) SetName(addr string, name string) {
	n.mu.Lock()
	n.names[addr] = name
	n.mu.Unlock()
}

func (n *Net) nameLocked(ip net.IP, port int) string {
	if s, ok := n.names[akey(ip, port)]; ok {
		return s
	}
	if s, ok := n.names[ip.String()]; ok {
		return s + ":" + strconv.Itoa(port)
	}
	return akey(ip, port)
}

func (n *Net) Name(ip net.IP, port int) string {
	n.mu.Lock()
	defer n.mu.Unlock()
	return n.nameLocked(ip, port)
}

func (n *Net) latency(from, to net.IP, flow string) int64 {
	base := n.LatSP
	if n.ServerIPs[from.String()] != n.ServerIPs[to.String()] {
		// one side is the server's listener address
		base = n.LatCS
	}
	return base + int64(HashStr(flow)%9973)
}

func (n *Net) register(info *SockInfo) {
	info.ID = len(n.Socks) + 1
	info.Open = true
	info.OpenedAt = n.K.Now()
	n.Socks = append(n.Socks, info)
}

// ioFault consults the plan for an injected socket error. Counted per (sock role, op).
func (n *Net) ioFault(role, op string, addr ...string) (string, bool) {
	if n.K.Free || len(n.K.Plan.IOFaults) == 0 {
		return "", false
	}
	n.mu.Lock()
	key := role + "|" + op
	n.ioCount[key]++
	c := n.ioCount[key]
	n.mu.Unlock()
	for i := range n.K.Plan.IOFaults {
		f := &n.K.Plan.IOFaults[i]
		if matchStr(f.M.Sock, role) && f.M.Op == op && (f.M.Nth == 0 || f.M.Nth == c) {
			n.K.Stats.Fault("io:" + role + ":" + op + ":" + f.Do)
			if n.Obs != nil {
				a := ""
				if len(addr) > 0 {
					a = addr[0]
				}
				n.Obs.IOFaulted(role, op, a)
			}
			return f.Do, true
		}
	}
	return "", false
}

var errInjected = &net.OpError{Op: "io", Net: "sim", Err: syscall.EIO}

type timeoutErr struct{}

func (timeoutErr) Error() string   { return "i/o timeout" }
func (timeoutErr) Timeout() bool   { return true }
func (timeoutErr) Temporary() bool { return true }

var errTimeout = &net.OpError{Op: "read", Net: "sim", Err: os.ErrDeadlineExceeded}

// ------------------------------------ UDP ------------------------------------------

type UDPSock struct {
	N     *Net
	Info  *SockInfo
	Role  string // role name used for yields / faults, e.g. "listener", "relay", "client:c1"
	laddr *net.UDPAddr // what LocalAddr() hands out (callers may mutate it, like net.UDPConn's)
	bound *net.UDPAddr // where the socket is really bound

	mu      sync.Mutex
	q       []*Dgram
	notify  chan struct{}
	closed  bool
	rdl     time.Time
	Handler func(d *Dgram) // scripted endpoint: run by the driver at delivery
	QueueCap int
	Dropped  int
}

func (n *Net) ListenUDP(role, owner string, ip net.IP, port int) (*UDPSock, error) {
	if do, ok := n.ioFault(role, "Listen"); ok && do == "error" {
		return nil, &net.OpError{Op: "listen", Net: "udp", Err: syscall.EADDRINUSE}
	}
	n.mu.Lock()
	defer n.mu.Unlock()
	if port == 0 {
		for {
			n.ephemeral[ip.String()]++
			port = 49152 + (n.ephemeral[ip.String()]*7919)%16000
			if _, used := n.udp[akey(ip, port)]; !used {
				break
			}
		}
	}
	key := akey(ip, port)
	if _, used := n.udp[key]; used {
		return nil, &net.OpError{Op: "listen", Net: "udp", Addr: &net.UDPAddr{IP: ip, Port: port}, Err: syscall.EADDRINUSE}
	}
	s := &UDPSock{N: n, Role: role, laddr: &net.UDPAddr{IP: ip, Port: port}, bound: &net.UDPAddr{IP: ip, Port: port}, notify: make(chan struct{}, 1), QueueCap: 4096}
	s.Info = &SockInfo{Kind: "udp", Role: role, Owner: owner, Addr: key}
	n.register(s.Info)
	n.udp[key] = s
	if n.Obs != nil {
		n.Obs.SockOpen(s.Info)
	}
	return s, nil
}

func (s *UDPSock) LocalAddr() net.Addr { return s.laddr }

// SetHandler installs (or removes) the scripted delivery callback.
func (s *UDPSock) SetHandler(h func(d *Dgram)) {
	s.mu.Lock()
	s.Handler = h
	s.mu.Unlock()
}

func (s *UDPSock) ReadFrom(p []byte) (int, net.Addr, error) {
	if s.N.Obs != nil {
		s.N.Obs.UDPReadCall(s)
	}
	s.N.K.Yield("sock:"+s.Role+":ReadFrom", s.Info.Addr)
	if do, ok := s.N.ioFault(s.Role, "ReadFrom", s.Info.Addr); ok && do == "error" {
		return 0, nil, errInjected
	}
	for {
		s.mu.Lock()
		if s.closed {
			s.mu.Unlock()
			return 0, nil, net.ErrClosed
		}
		if len(s.q) > 0 {
			d := s.q[0]
			s.q = s.q[1:]
			s.mu.Unlock()
			n := copy(p, d.Payload) // Linux semantics: silently truncated to the buffer
			if s.N.Obs != nil {
				s.N.Obs.UDPRead(s, d, n)
			}
			return n, &net.UDPAddr{IP: d.From.IP, Port: d.From.Port}, nil
		}
		rdl := s.rdl
		s.mu.Unlock()
		if rdl.IsZero() {
			<-s.notify
			continue
		}
		d := time.Until(rdl)
		if d <= 0 {
			return 0, nil, errTimeout
		}
		t := time.NewTimer(d)
		select {
		case <-s.notify:
			t.Stop()
		case <-t.C:
		}
	}
}

func (s *UDPSock) WriteTo(p []byte, addr net.Addr) (int, error) {
	s.N.K.YieldT("sock:"+s.Role+":WriteTo", s.Info.Addr, fmt.Sprintf("%016x", HashStr(string(p))))
	ua, ok := addr.(*net.UDPAddr)
	if !ok {
		if ta, ok2 := addr.(*net.TCPAddr); ok2 {
			ua = &net.UDPAddr{IP: ta.IP, Port: ta.Port}
		} else {
			return 0, &net.OpError{Op: "write", Net: "udp", Err: syscall.EINVAL}
		}
	}
	s.mu.Lock()
	closed := s.closed
	s.mu.Unlock()
	if closed {
		return 0, net.ErrClosed
	}
	if len(p) > 65507 {
		return 0, &net.OpError{Op: "write", Net: "udp", Err: syscall.EMSGSIZE}
	}
	if do, ok := s.N.ioFault(s.Role, "WriteTo", s.Info.Addr+">"+akey(ua.IP, ua.Port)); ok && do == "error" {
		if s.Role == "listener" && s.N.Obs != nil {
			s.N.Obs.UDPWrite(s, ua, p) // the server did act; only the datagram is lost
		}
		return 0, errInjected
	}
	if s.N.Obs != nil {
		s.N.Obs.UDPWrite(s, ua, p)
	}
	s.N.SendUDP(s.bound, ua, p)
	return len(p), nil
}

func (s *UDPSock) wakeup() {
	select {
	case s.notify <- struct{}{}:
	default:
	}
}

func (s *UDPSock) Close() error {
	s.N.K.Yield("sock:"+s.Role+":Close", s.Info.Addr)
	s.mu.Lock()
	already := s.closed
	s.closed = true
	s.mu.Unlock()
	s.N.mu.Lock()
	s.Info.CloseCount++
	if !already {
		s.Info.Open = false
		s.Info.ClosedAt = s.N.K.Now()
		delete(s.N.udp, s.Info.Addr)
	}
	s.N.mu.Unlock()
	if already {
		return net.ErrClosed
	}
	if s.N.Obs != nil {
		s.N.Obs.SockClose(s.Info)
	}
	s.wakeup()
	if do, ok := s.N.ioFault(s.Role, "Close", s.Info.Addr); ok && do == "error" {
		return errInjected // the socket is closed all the same; Close merely reports an error
	}
	return nil
}

func (s *UDPSock) SetDeadline(t time.Time) error { return s.SetReadDeadline(t) }
func (s *UDPSock) SetReadDeadline(t time.Time) error {
	s.mu.Lock()
	s.rdl = t
	s.mu.Unlock()
	s.wakeup()
	return nil
}
func (s *UDPSock) SetWriteDeadline(time.Time) error { return nil }

// Classify names a datagram for fault matching and logs.
var Classify func(b []byte) string = func(b []byte) string { return "raw" }

// SendUDP puts a datagram on the wire; the plan decides its fate.
func (n *Net) SendUDP(from, to *net.UDPAddr, payload []byte) {
	k := n.K
	if k.Free {
		// no names, counters or fault directives: nothing shared between senders
		base := n.LatSP
		if n.ServerIPs[from.IP.String()] != n.ServerIPs[to.IP.String()] {
			base = n.LatCS
		}
		d := &Dgram{From: &net.UDPAddr{IP: from.IP, Port: from.Port}, To: &net.UDPAddr{IP: to.IP, Port: to.Port}, Payload: append([]byte(nil), payload...)}
		time.AfterFunc(time.Duration(base+int64(from.Port%97)*1000), func() { n.deliverUDP(d) })
		return
	}
	n.mu.Lock()
	flow := n.nameLocked(from.IP, from.Port) + ">" + n.nameLocked(to.IP, to.Port)
	what := Classify(payload)
	ck := flow + "|" + what
	n.flowCount[ck]++
	nth := n.flowCount[ck]
	n.dgramID++
	d := &Dgram{ID: n.dgramID, From: &net.UDPAddr{IP: from.IP, Port: from.Port}, To: &net.UDPAddr{IP: to.IP, Port: to.Port},
		Payload: append([]byte(nil), payload...), SentAt: k.Now(), Flow: flow, What: what, Nth: nth}
	n.mu.Unlock()
	lat := n.latency(from.IP, to.IP, flow)
	copies := 1
	for i := range k.Plan.NetFaults {
		f := &k.Plan.NetFaults[i]
		if f.Do == "partition" && matchStr(f.M.Flow, flow) && d.SentAt >= f.AtNS && d.SentAt < f.AtNS+f.Arg {
			k.Stats.Fault("net:partition")
			k.Logf("net partition-drop %s %s#%d", flow, what, nth)
			return
		}
	}
	for i := range k.Plan.NetFaults {
		f := &k.Plan.NetFaults[i]
		if f.Do == "partition" {
			continue
		}
		if !matchStr(f.M.Flow, flow) || !matchStr(f.M.What, what) || (f.M.Nth != 0 && f.M.Nth != nth) {
			continue
		}
		k.Stats.Fault("net:" + f.Do)
		switch f.Do {
		case "drop":
			k.Logf("net drop %s %s#%d", flow, what, nth)
			return
		case "dup":
			copies = 2
		case "delay":
			lat += f.Arg
		case "corrupt":
			if len(d.Payload) > 0 {
				i := int(uint64(f.Arg) % uint64(len(d.Payload)*8))
				d.Payload[i/8] ^= 1 << (i % 8)
			}
		case "truncate":
			if int(f.Arg) < len(d.Payload) {
				d.Payload = d.Payload[:f.Arg]
			}
		}
		break
	}
	for c := 0; c < copies; c++ {
		dd := d
		extra := int64(0)
		if c > 0 {
			cp := *d
			dd = &cp
			extra = lat/2 + 1
		}
		k.At(k.Now()+lat+extra, fmt.Sprintf("net:%s:%s#%06d.%d", flow, what, nth, c), func() { n.deliverUDP(dd) })
	}
}

func (n *Net) deliverUDP(d *Dgram) {
	n.mu.RLock()
	s := n.udp[akey(d.To.IP, d.To.Port)]
	n.mu.RUnlock()
	if s == nil && !n.K.Free {
		n.mu.Lock()
		n.Unbound++
		n.mu.Unlock()
	}
	if s == nil {
		return
	}
	s.mu.Lock()
	h := s.Handler
	s.mu.Unlock()
	if h != nil {
		if n.Obs != nil {
			n.Obs.UDPDeliverScripted(s, d)
		}
		h(d)
		return
	}
	s.mu.Lock()
	if s.closed || len(s.q) >= s.QueueCap {
		s.Dropped++
		s.mu.Unlock()
		return
	}
	s.q = append(s.q, d)
	s.mu.Unlock()
	s.wakeup()
}

// ------------------------------------ TCP ------------------------------------------

type TCPListener struct {
	N     *Net
	Info  *SockInfo
	Role  string
	laddr *net.TCPAddr
	Bound *net.TCPAddr

	mu     sync.Mutex
	q      []*TCPConn
	notify chan struct{}
	closed bool
	reuse  bool // SO_REUSEPORT
	// scripted listener: run by the driver on SYN arrival; returns false to refuse
	OnConn func(c *TCPConn)
}

func (n *Net) ListenTCP(role, owner string, ip net.IP, port int) (*TCPListener, error) {
	return n.ListenTCPReuse(role, owner, ip, port, false)
}

// ListenTCPReuse: with reuse (SO_REUSEPORT) a bind to an address succeeds although listeners
// hold it already, if every one of them has the option set too - as on Linux for sockets of
// one user. Incoming connections are then spread over those listeners. A port asked for as 0
// is still one nobody holds.
func (n *Net) ListenTCPReuse(role, owner string, ip net.IP, port int, reuse bool) (*TCPListener, error) {
	if do, ok := n.ioFault(role, "Listen"); ok && do == "error" {
		return nil, &net.OpError{Op: "listen", Net: "tcp", Err: syscall.EADDRINUSE}
	}
	n.mu.Lock()
	defer n.mu.Unlock()
	if port == 0 {
		for {
			n.ephemeral["t"+ip.String()]++
			port = 49152 + (n.ephemeral["t"+ip.String()]*7919)%16000
			if len(n.tcpl[akey(ip, port)]) == 0 {
				break
			}
		}
	}
	key := akey(ip, port)
	for _, o := range n.tcpl[key] {
		if !reuse || !o.reuse {
			return nil, &net.OpError{Op: "listen", Net: "tcp", Err: syscall.EADDRINUSE}
		}
	}
	if len(n.tcpl[key]) > 0 {
		n.K.Stats.Fault("net:reuseport-shared-bind")
	}
	l := &TCPListener{reuse: reuse, N: n, Role: role, laddr: &net.TCPAddr{IP: ip, Port: port}, Bound: &net.TCPAddr{IP: ip, Port: port}, notify: make(chan struct{}, 1)}
	l.Info = &SockInfo{Kind: "tcp-listener", Role: role, Owner: owner, Addr: key}
	n.register(l.Info)
	n.tcpl[key] = append(n.tcpl[key], l)
	if n.Obs != nil {
		n.Obs.SockOpen(l.Info)
	}
	return l, nil
}

func (l *TCPListener) Addr() net.Addr { return l.laddr }

func (l *TCPListener) Accept() (net.Conn, error) {
	l.N.K.Yield("sock:"+l.Role+":Accept", l.Info.Addr)
	if do, ok := l.N.ioFault(l.Role, "Accept", l.Info.Addr); ok && do == "error" {
		return nil, errInjected
	}
	for {
		l.mu.Lock()
		if l.closed {
			l.mu.Unlock()
			return nil, net.ErrClosed
		}
		if len(l.q) > 0 {
			c := l.q[0]
			l.q = l.q[1:]
			l.mu.Unlock()
			if l.N.Obs != nil {
				l.N.Obs.TCPAccepted(l, c)
			}
			return c, nil
		}
		l.mu.Unlock()
		<-l.notify
	}
}

func (l *TCPListener) Close() error {
	l.N.K.Yield("sock:"+l.Role+":Close", l.Info.Addr)
	l.mu.Lock()
	already := l.closed
	l.closed = true
	pending := l.q
	l.q = nil
	l.mu.Unlock()
	l.N.mu.Lock()
	l.Info.CloseCount++
	if !already {
		l.Info.Open = false
		l.Info.ClosedAt = l.N.K.Now()
		ls := l.N.tcpl[l.Info.Addr]
		for i, o := range ls {
			if o == l {
				ls = append(ls[:i:i], ls[i+1:]...)
				break
			}
		}
		if len(ls) == 0 {
			delete(l.N.tcpl, l.Info.Addr)
		} else {
			l.N.tcpl[l.Info.Addr] = ls
		}
	}
	l.N.mu.Unlock()
	if already {
		return net.ErrClosed
	}
	for _, c := range pending {
		c.reset()
	}
	if l.N.Obs != nil {
		l.N.Obs.SockClose(l.Info)
	}
	select {
	case l.notify <- struct{}{}:
	default:
	}
	if do, ok := l.N.ioFault(l.Role, "Close", l.Info.Addr); ok && do == "error" {
		return errInjected
	}
	return nil
}

// tcpHalf is one direction of a connection as seen by its reader.
type tcpHalf struct {
	buf        []byte
	finArrived bool
	rst        bool
}

// TCPConn is one endpoint of a simulated TCP connection.
type TCPConn struct {
	N      *Net
	Info   *SockInfo
	Role   string
	Name   string // stream name for cut directives, e.g. "c1>srv"
	laddr  *net.TCPAddr
	raddr  *net.TCPAddr
	peer   *TCPConn
	mu     sync.Mutex
	in     tcpHalf
	notify chan struct{}
	closed bool // locally closed
	wfin   bool // FIN sent
	rdl    time.Time
	wrote  int
	readIx int
	// scripted endpoint callbacks (driver-run)
	OnData  func(c *TCPConn, b []byte)
	OnEOF   func(c *TCPConn, rst bool)
	Scripted bool
	BytesIn  int
	BytesOut int
	Arrived  int // bytes that reached this endpoint's receive buffer
	nextArr  int64 // arrival instant of the last byte sent so far (stream order is preserved)
	// flow control: a writer may have at most wnd bytes outstanding (sent and not yet consumed
	// by the peer's application); 0 = no limit. consumed counts what this end's application took.
	wnd      int
	consumed int
	wdl      time.Time
	wnotify  chan struct{}
	wlock    chan struct{} // write lock of the connection (see Write)
	paused   bool   // scripted endpoint that has stopped reading: arrivals queue in in.buf
	outPend    []byte // coalescing: written at this instant, not yet cut into segments
	flushSched bool
	flushedOff int
}

// SetScripted turns the endpoint into a scripted one (callbacks instead of a receive buffer).
// The fields are read by arrival events on other goroutines in the free-running mode.
func (c *TCPConn) SetScripted(onData func(c *TCPConn, b []byte), onEOF func(c *TCPConn, rst bool)) {
	c.mu.Lock()
	c.Scripted = true
	c.OnData, c.OnEOF = onData, onEOF
	c.mu.Unlock()
}

func (c *TCPConn) isScripted() bool {
	c.mu.Lock()
	defer c.mu.Unlock()
	return c.Scripted
}

func (c *TCPConn) LocalAddr() net.Addr  { return c.laddr }
func (c *TCPConn) RemoteAddr() net.Addr { return c.raddr }
func (c *TCPConn) Peer() *TCPConn       { return c.peer }

func (n *Net) newConnPair(roleA, roleB string, a, b *net.TCPAddr) (*TCPConn, *TCPConn) {
	ca := &TCPConn{N: n, Role: roleA, laddr: a, raddr: b, notify: make(chan struct{}, 1), wnotify: make(chan struct{})}
	cb := &TCPConn{N: n, Role: roleB, laddr: b, raddr: a, notify: make(chan struct{}, 1), wnotify: make(chan struct{})}
	ca.peer, cb.peer = cb, ca
	n.mu.Lock()
	ca.Name = n.nameLocked(a.IP, a.Port) + ">" + n.nameLocked(b.IP, b.Port)
	cb.Name = n.nameLocked(b.IP, b.Port) + ">" + n.nameLocked(a.IP, a.Port)
	ca.Info = &SockInfo{Kind: "tcp-conn", Role: roleA, Addr: akey(a.IP, a.Port), Remote: akey(b.IP, b.Port)}
	cb.Info = &SockInfo{Kind: "tcp-conn", Role: roleB, Addr: akey(b.IP, b.Port), Remote: akey(a.IP, a.Port)}
	n.register(ca.Info)
	n.register(cb.Info)
	n.mu.Unlock()
	ca.wnd, cb.wnd = ca.windowFor(), cb.windowFor()
	if n.Obs != nil {
		n.Obs.SockOpen(ca.Info)
		n.Obs.SockOpen(cb.Info)
	}
	return ca, cb
}

// DialAsync starts a connection attempt; done is run by the driver when it completes.
func (n *Net) DialAsync(role string, laddr, raddr *net.TCPAddr, done func(c *TCPConn, err error)) {
	k := n.K
	n.mu.Lock()
	if laddr.Port == 0 {
		n.ephemeral["c"+laddr.IP.String()]++
		laddr = &net.TCPAddr{IP: laddr.IP, Port: 32768 + (n.ephemeral["c"+laddr.IP.String()]*7919)%16000}
	}
	flow := n.nameLocked(laddr.IP, laddr.Port) + ">" + n.nameLocked(raddr.IP, raddr.Port)
	n.flowCount[flow+"|syn"]++
	nth := n.flowCount[flow+"|syn"]
	n.mu.Unlock()
	lat := n.latency(laddr.IP, raddr.IP, flow)
	if n.SilentTCP != "" && akey(raddr.IP, raddr.Port) == n.SilentTCP {
		k.Stats.Fault("net:syn-blackhole")
		n.mu.Lock()
		n.SilentDials = append(n.SilentDials, k.Now())
		n.mu.Unlock()
		return
	}
	for i := range k.Plan.NetFaults {
		f := &k.Plan.NetFaults[i]
		if matchStr(f.M.Flow, flow) && f.M.What == "syn" && (f.M.Nth == 0 || f.M.Nth == nth) {
			k.Stats.Fault("net:syn-" + f.Do)
			switch f.Do {
			case "drop": // black hole: never answers
				return
			case "delay":
				lat += f.Arg
			case "refuse":
				k.After(2*lat, "synrst:"+flow, func() { done(nil, &net.OpError{Op: "dial", Net: "tcp", Err: syscall.ECONNREFUSED}) })
				return
			}
		}
	}
	k.After(lat, fmt.Sprintf("syn:%s#%d", flow, nth), func() {
		n.mu.Lock()
		var l *TCPListener
		if ls := n.tcpl[akey(raddr.IP, raddr.Port)]; len(ls) > 0 {
			l = ls[n.tcplRR[akey(raddr.IP, raddr.Port)]%len(ls)]
			n.tcplRR[akey(raddr.IP, raddr.Port)]++
		}
		n.mu.Unlock()
		if l == nil {
			k.After(lat, "synrst:"+flow, func() { done(nil, &net.OpError{Op: "dial", Net: "tcp", Err: syscall.ECONNREFUSED}) })
			return
		}
		l.mu.Lock()
		lclosed := l.closed
		l.mu.Unlock()
		if lclosed {
			k.After(lat, "synrst:"+flow, func() { done(nil, &net.OpError{Op: "dial", Net: "tcp", Err: syscall.ECONNREFUSED}) })
			return
		}
		cc, sc := n.newConnPair(role, l.Role+"-conn", laddr, &net.TCPAddr{IP: raddr.IP, Port: raddr.Port})
		if l.OnConn != nil {
			sc.SetScripted(nil, nil)
			l.OnConn(sc)
		} else {
			l.mu.Lock()
			l.q = append(l.q, sc)
			l.mu.Unlock()
			select {
			case l.notify <- struct{}{}:
			default:
			}
		}
		k.After(lat, fmt.Sprintf("synack:%s#%d", flow, nth), func() { done(cc, nil) })
	})
}

// Dial is the blocking form used by library code (relay generator AllocateConn).
func (n *Net) Dial(role string, laddr, raddr *net.TCPAddr, timeout time.Duration) (*TCPConn, error) {
	n.K.Yield("sock:"+role+":Dial", akey(raddr.IP, raddr.Port))
	if do, ok := n.ioFault(role, "Dial"); ok && do == "error" {
		return nil, errInjected
	}
	type res struct {
		c   *TCPConn
		err error
	}
	ch := make(chan res, 1)
	n.DialAsync(role, laddr, raddr, func(c *TCPConn, err error) { ch <- res{c, err} })
	if timeout <= 0 {
		// what a Linux host does by default with a SYN that is never answered: six
		// retransmissions, 1+2+4+8+16+32+64 s, then ETIMEDOUT
		timeout = 127 * time.Second
	}
	t := time.NewTimer(timeout)
	select {
	case r := <-ch:
		t.Stop()
		return r.c, r.err
	case <-t.C:
		return nil, &net.OpError{Op: "dial", Net: "tcp", Err: os.ErrDeadlineExceeded}
	}
}

func (c *TCPConn) wakeup() {
	select {
	case c.notify <- struct{}{}:
	default:
	}
}

func (c *TCPConn) cutsFor() (cuts, reads []int) {
	for i := range c.N.K.Plan.Streams {
		s := &c.N.K.Plan.Streams[i]
		if matchStr(s.Conn, c.Name) {
			return s.Cuts, s.Reads
		}
	}
	return nil, nil
}

func (c *TCPConn) Read(p []byte) (int, error) {
	n, err := c.read(p)
	if err != nil && c.N.Obs != nil {
		c.N.Obs.TCPReadEnd(c, err)
	}
	return n, err
}

func (c *TCPConn) read(p []byte) (int, error) {
	if c.N.Obs != nil {
		c.N.Obs.TCPReadCall(c)
	}
	c.N.K.Yield("sock:"+c.Role+":Read", c.Name)
	withData := false
	if do, ok := c.N.ioFault(c.Role, "Read"); ok {
		if do == "error" {
			return 0, errInjected
		}
		// "error-with-data": the Read hands out what is there and reports the (transient)
		// error with it - n > 0 and err != nil at once, which io.Reader allows
		withData = do == "error-with-data"
	}
	if len(p) == 0 {
		return 0, nil
	}
	for {
		c.mu.Lock()
		if c.closed {
			c.mu.Unlock()
			return 0, net.ErrClosed
		}
		if c.in.rst {
			c.mu.Unlock()
			return 0, &net.OpError{Op: "read", Net: "tcp", Err: syscall.ECONNRESET}
		}
		if len(c.in.buf) > 0 {
			n := len(c.in.buf)
			if n > len(p) {
				n = len(p)
			}
			// the stream directive for the *incoming* direction is named by the peer
			_, reads := c.peer.cutsFor()
			if len(reads) > 0 {
				r := reads[c.readIx%len(reads)]
				c.readIx++
				if r > 0 && r < n {
					n = r
					c.N.K.Stats.Fault("stream:short-read")
				}
			}
			copy(p, c.in.buf[:n])
			c.in.buf = c.in.buf[n:]
			c.BytesIn += n
			c.consumed += n
			// io.Reader: "a Reader returning a non-zero number of bytes at the end of the input
			// stream may return either err == EOF or err == nil". A *net.TCPConn does the latter,
			// a tls.Conn (TLS 1.2, close_notify already buffered) the former: with EOFWithData the
			// last bytes of a stream come with their EOF
			last := c.N.EOFWithData && len(c.in.buf) == 0 && c.in.finArrived && !c.in.rst
			c.mu.Unlock()
			c.peer.wakeWriter()
			if c.N.Obs != nil {
				c.N.Obs.TCPRead(c, p[:n])
			}
			if last {
				c.N.K.Stats.Fault("stream:eof-with-data")
				return n, io.EOF
			}
			if withData {
				return n, errInjected
			}
			return n, nil
		}
		if c.in.finArrived {
			c.mu.Unlock()
			return 0, io.EOF
		}
		rdl := c.rdl
		c.mu.Unlock()
		if rdl.IsZero() {
			<-c.notify
			continue
		}
		d := time.Until(rdl)
		if d <= 0 {
			return 0, errTimeout
		}
		t := time.NewTimer(d)
		select {
		case <-c.notify:
			t.Stop()
		case <-t.C:
		}
	}
}

func (c *TCPConn) Write(p []byte) (int, error) {
	scripted := c.isScripted()
	if !scripted {
		if c.N.OpaqueStreams {
			// (W-tls: the bytes are ciphertext of a handshake whose randomness crypto/tls does not
			// draw in a reproducible order - their length, not their content, identifies the write)
			c.N.K.YieldT("sock:"+c.Role+":Write", c.Name, fmt.Sprintf("len%d", len(p)))
		} else {
			c.N.K.YieldT("sock:"+c.Role+":Write", c.Name, fmt.Sprintf("%016x", HashStr(string(p))))
			if debugWrites {
				c.N.K.Logf("write %s %x", c.Name, p)
			}
		}
		if do, ok := c.N.ioFault(c.Role, "Write", c.Name+">"+akey(c.raddr.IP, c.raddr.Port)); ok && do == "error" {
			if c.Role == "listener-conn" && c.N.Obs != nil {
				c.N.Obs.TCPWrite(c, p) // the server did act; only the bytes are lost
			}
			return 0, errInjected
		}
	}
	c.mu.Lock()
	if c.closed || c.wfin {
		c.mu.Unlock()
		return 0, net.ErrClosed
	}
	if c.in.rst {
		c.mu.Unlock()
		return 0, &net.OpError{Op: "write", Net: "tcp", Err: syscall.EPIPE}
	}
	if c.wnd > 0 && !scripted && !c.N.K.Free {
		if c.wlock == nil {
			c.wlock = make(chan struct{}, 1)
		}
		wl := c.wlock
		c.mu.Unlock()
		if c.N.Obs != nil {
			c.N.Obs.TCPWrite(c, p) // what the server means to send, at the instant it acts
		}
		// one Write at a time, whole: a socket's write lock is held until the last byte is in
		// the send buffer, so two goroutines writing to one connection never interleave inside
		// a call, however long the window keeps one of them waiting (a channel, not a mutex:
		// a goroutine waiting here is durably blocked for the bubble)
		wl <- struct{}{}
		n, err := c.writeWindowed(p)
		<-wl
		return n, err
	}
	off := c.wrote
	c.wrote += len(p)
	c.BytesOut += len(p)
	c.mu.Unlock()
	if !scripted && c.N.Obs != nil {
		c.N.Obs.TCPWrite(c, p)
	}
	data := append([]byte(nil), p...)
	if c.coalesces() && !c.N.K.Free {
		// everything written on this connection at one instant leaves as one piece of stream,
		// which is then cut by the plan's pattern without regard to where the writes ended:
		// a read can end in the middle of a frame that follows a whole one
		c.mu.Lock()
		c.outPend = append(c.outPend, data...)
		sched := c.flushSched
		c.flushSched = true
		c.mu.Unlock()
		if !sched {
			c.N.K.At(c.N.K.Now(), "zflush:"+c.Name, c.flush)
		}
		return len(p), nil
	}
	c.send(data, off)
	return len(p), nil
}

// writeWindowed: the peer's application is slow. Bytes leave as the window opens; the call
// blocks while it is shut and ends early, with what it managed to write, when the write
// deadline passes or the connection is closed under it.
func (c *TCPConn) writeWindowed(p []byte) (int, error) {
	written := 0
	var err error
	for written < len(p) {
		c.mu.Lock()
		if c.closed || c.wfin {
			c.mu.Unlock()
			err = net.ErrClosed
			break
		}
		if c.in.rst {
			c.mu.Unlock()
			err = &net.OpError{Op: "write", Net: "tcp", Err: syscall.EPIPE}
			break
		}
		c.peer.mu.Lock()
		room := c.wnd - (c.wrote - c.peer.consumed)
		peerGone := c.peer.closed && c.in.finArrived
		c.peer.mu.Unlock()
		if peerGone && room <= 0 {
			// the other end has closed its socket (not just its sending side): nothing will ever
			// open the window again, and a real stack answers the window probes with a reset
			c.mu.Unlock()
			err = &net.OpError{Op: "write", Net: "tcp", Err: syscall.ECONNRESET}
			break
		}
		if room > 0 {
			n := len(p) - written
			if n > room {
				n = room
			}
			off := c.wrote
			c.wrote += n
			c.BytesOut += n
			c.mu.Unlock()
			c.send(append([]byte(nil), p[written:written+n]...), off)
			written += n
			continue
		}
		wdl := c.wdl
		wake := c.wnotify // every blocked writer of this connection waits for the same broadcast
		c.mu.Unlock()
		c.N.K.Stats.Fault("stream:window-full")
		if wdl.IsZero() {
			<-wake
		} else {
			d := time.Until(wdl)
			if d <= 0 {
				err = errTimeout
				break
			}
			t := time.NewTimer(d)
			select {
			case <-wake:
				t.Stop()
			case <-t.C:
			}
		}
		// woken by the reader's goroutine: hand control back to the driver before going on
		c.N.K.Yield("sock:"+c.Role+":Write", c.Name)
	}
	if c.N.Obs != nil && written > 0 && written < len(p) && err == errTimeout {
		// a write that a deadline cut short leaves a torn frame on a stream that stays in use
		c.N.Obs.IOFaulted(c.Role, "TornWrite", fmt.Sprintf("%s>%s|%d of %d bytes", c.Name, akey(c.raddr.IP, c.raddr.Port), written, len(p)))
	}
	if c.N.Obs != nil && written == 0 && len(p) > 0 && err == errTimeout {
		// given up before the first byte: the observer was told of this write when it began
		c.N.Obs.IOFaulted(c.Role, "DroppedWrite", fmt.Sprintf("%s>%s|%x", c.Name, akey(c.raddr.IP, c.raddr.Port), p[:min(len(p), 20)]))
	}
	return written, err
}

// wakeWriter wakes every writer blocked on the window (several goroutines may write to one
// connection: a relay loop and a request handler).
func (c *TCPConn) wakeWriter() {
	c.mu.Lock()
	if c.wnotify != nil {
		close(c.wnotify)
		c.wnotify = make(chan struct{})
	}
	c.mu.Unlock()
}

func (c *TCPConn) windowFor() int {
	for i := range c.N.K.Plan.Streams {
		s := &c.N.K.Plan.Streams[i]
		if matchStr(s.Conn, c.Name) {
			return s.Window
		}
	}
	return 0
}

// Pause / Resume: a scripted endpoint stops / resumes reading.
func (c *TCPConn) Pause() {
	c.mu.Lock()
	c.paused = true
	c.mu.Unlock()
}

func (c *TCPConn) Resume() {
	c.mu.Lock()
	c.paused = false
	b := c.in.buf
	c.in.buf = nil
	c.BytesIn += len(b)
	c.consumed += len(b)
	onData := c.OnData
	c.mu.Unlock()
	c.peer.wakeWriter()
	if len(b) > 0 && onData != nil {
		onData(c, b)
	}
}

func (c *TCPConn) coalesces() bool {
	for i := range c.N.K.Plan.Streams {
		s := &c.N.K.Plan.Streams[i]
		if matchStr(s.Conn, c.Name) {
			return s.Coalesce
		}
	}
	return false
}

// flush sends what the writes of this instant have queued.
func (c *TCPConn) flush() {
	c.mu.Lock()
	data, off := c.outPend, c.flushedOff
	c.outPend, c.flushSched = nil, false
	c.flushedOff += len(data)
	c.mu.Unlock()
	if len(data) > 0 {
		c.send(data, off)
	}
}

// send cuts data (stream offset off) into segments and schedules their arrival.
func (c *TCPConn) send(data []byte, off int) {
	cuts, _ := c.cutsFor()
	lat := c.N.latency(c.laddr.IP, c.raddr.IP, c.Name)
	k := c.N.K
	i := 0
	ci := 0
	for i < len(data) {
		sz := len(data) - i
		if len(cuts) > 0 {
			cs := cuts[(off+ci)%len(cuts)]
			ci++
			if cs > 0 && cs < sz {
				sz = cs
				k.Stats.Fault("stream:segment")
			}
		}
		chunk := data[i : i+sz]
		i += sz
		peer := c.peer
		k.At(c.arrivalSlot(lat+1), fmt.Sprintf("seg:%s@%012d", c.Name, off+i), func() { peer.arrive(chunk) })
	}
}

// arrivalSlot returns a strictly increasing arrival instant for the next thing sent.
func (c *TCPConn) arrivalSlot(d int64) int64 {
	c.mu.Lock()
	defer c.mu.Unlock()
	at := c.N.K.Now() + d
	if at <= c.nextArr {
		at = c.nextArr + 1
	}
	c.nextArr = at
	return at
}

func (c *TCPConn) arrive(b []byte) {
	// EOFWithData: a FIN sent at the instant of the last write travels on the last segment
	// (the delayed FIN event that follows changes nothing then)
	piggyback, total := false, 0
	if c.N.EOFWithData {
		c.peer.mu.Lock()
		piggyback, total = c.peer.wfin && !c.peer.in.rst, c.peer.wrote
		c.peer.mu.Unlock()
	}
	c.mu.Lock()
	if c.closed || c.in.rst {
		c.mu.Unlock()
		return
	}
	if c.Scripted && c.paused {
		c.in.buf = append(c.in.buf, b...) // the application is not reading: the bytes wait (and fill the window)
		c.mu.Unlock()
		return
	}
	if c.Scripted {
		c.BytesIn += len(b)
		c.consumed += len(b)
		onData := c.OnData
		c.mu.Unlock()
		c.peer.wakeWriter()
		if onData != nil {
			onData(c, b)
		}
		return
	}
	c.in.buf = append(c.in.buf, b...)
	c.Arrived += len(b)
	if piggyback && c.Arrived == total {
		c.in.finArrived = true
	}
	c.mu.Unlock()
	c.wakeup()
}

func (c *TCPConn) arriveFIN(rst bool) {
	c.mu.Lock()
	if rst {
		c.in.rst = true
	} else {
		c.in.finArrived = true
	}
	scripted, onEOF := c.Scripted, c.OnEOF
	c.mu.Unlock()
	c.wakeWriter()
	if scripted {
		if onEOF != nil {
			onEOF(c, rst)
		}
		return
	}
	c.wakeup()
}

func (c *TCPConn) reset() { c.closeHow(true) }

func (c *TCPConn) Close() error {
	if !c.isScripted() {
		c.N.K.Yield("sock:"+c.Role+":Close", c.Name)
	}
	return c.closeHow(false)
}

// CloseWrite sends FIN but keeps reading (half close).
func (c *TCPConn) CloseWrite() error {
	c.flush()
	c.mu.Lock()
	if c.closed || c.wfin {
		c.mu.Unlock()
		return net.ErrClosed
	}
	c.wfin = true
	c.mu.Unlock()
	lat := c.N.latency(c.laddr.IP, c.raddr.IP, c.Name)
	peer := c.peer
	c.N.K.At(c.arrivalSlot(lat+2000000), "fin:"+c.Name, func() { peer.arriveFIN(false) })
	return nil
}

func (c *TCPConn) closeHow(rst bool) error {
	c.flush() // queued bytes leave before the FIN
	c.mu.Lock()
	already := c.closed
	c.closed = true
	sendFin := !c.wfin
	c.wfin = true
	unread := len(c.in.buf) > 0
	c.mu.Unlock()
	c.N.mu.Lock()
	c.Info.CloseCount++
	if !already {
		c.Info.Open = false
		c.Info.ClosedAt = c.N.K.Now()
	}
	c.N.mu.Unlock()
	if already {
		return net.ErrClosed
	}
	how := "fin"
	if rst || unread {
		how = "rst"
	}
	if c.N.Obs != nil {
		c.N.Obs.SockClose(c.Info)
		c.N.Obs.TCPClosed(c, how)
	}
	if sendFin || rst {
		lat := c.N.latency(c.laddr.IP, c.raddr.IP, c.Name)
		peer := c.peer
		isRst := rst
		c.N.K.At(c.arrivalSlot(lat+2000000), "fin:"+c.Name, func() { peer.arriveFIN(isRst) })
	}
	c.wakeup()
	c.wakeWriter()
	return nil
}

func (c *TCPConn) SetDeadline(t time.Time) error {
	_ = c.SetWriteDeadline(t)
	return c.SetReadDeadline(t)
}
func (c *TCPConn) SetReadDeadline(t time.Time) error {
	c.mu.Lock()
	c.rdl = t
	c.mu.Unlock()
	c.wakeup()
	return nil
}
func (c *TCPConn) SetWriteDeadline(t time.Time) error {
	c.mu.Lock()
	c.wdl = t
	c.mu.Unlock()
	c.wakeWriter()
	return nil
}

// OpenSockets lists what is still open, by role prefix.
func (n *Net) OpenSockets() []*SockInfo {
	n.mu.Lock()
	defer n.mu.Unlock()
	var out []*SockInfo
	for _, s := range n.Socks {
		if s.Open {
			out = append(out, s)
		}
	}
	return out
}
