package sim

import (
	"encoding/binary"
	"fmt"
	"net"
	"sort"
	"testing"

	"github.com/pion/stun/v3"
	"github.com/pion/turn/v5"
)

// XLWorld ("cross-listener", C04): one real turn.Server with several listeners - UDP and TCP on
// the same address and port, optionally a second UDP port - each with its own relay address
// generator, and scripted clients that deliberately share their own ip:port across listeners:
// the only thing that tells their 5-tuples apart is the transport (or the server port).
//
// Operations are issued one at a time with gaps far longer than a round trip, without
// stalls or faults, so the expected outcome of every operation is exact: a small reference
// model (allocated?, relayed address, permitted peer IPs per endpoint) decides each response,
// each delivery and the server's allocation count. The full monitor is not used here - its
// model is keyed by the client address, which is precisely what these endpoints share.

type xlListener struct {
	Kind    string // udp | tcp
	Port    int
	RelayIP net.IP
}

type xlData struct {
	Peer    string
	Payload string
}

type xlResult struct {
	Done bool
	OK   bool
	Code int
	Msg  *stun.Message
}

type xlEndpoint struct {
	ID         string
	L          int
	Addr       *net.UDPAddr
	User, Pass string
	udp        *UDPSock
	tcp        *TCPConn
	tcpUp      bool
	tcpQ       [][]byte
	inbuf      []byte
	nonce      string
	realm      string
	tidCtr     int
	pend       map[[12]byte]func(m *stun.Message)
	got        []xlData // Data indications received since the last judgement
	// reference model
	alloc bool
	relay *net.UDPAddr
	perms map[string]bool
}

type XLWorld struct {
	K    *Kernel
	P    *Plan
	Net  *Net
	LF   *SimLoggerFactory
	Srv  *turn.Server
	IP   net.IP
	Ls   []xlListener
	Eps  map[string]*xlEndpoint
	Peer map[string]*UDPSock
	pgot map[string][]xlData // datagrams a peer received since the last judgement: from -> payload
	opIdx int
	prev  int64
	done  bool
	abort bool // the model lost track (allocation count mismatch): no further operations
	// expectation of the operation in progress
	cur     *Op
	curRes  *xlResult
	expPeer map[string][]xlData // peer id -> expected datagrams
	expEp   map[string][]xlData // endpoint id -> expected Data indications
	started chan struct{}
}

type xlGen struct {
	W  *XLWorld
	IP net.IP
}

func (g *xlGen) Validate() error { return nil }
func (g *xlGen) AllocatePacketConn(c turn.AllocateListenerConfig) (net.PacketConn, net.Addr, error) {
	g.W.K.Yield("cb:AllocatePacketConn", c.UserID)
	s, err := g.W.Net.ListenUDP("relay", c.UserID, g.IP, c.RequestedPort)
	if err != nil {
		return nil, nil, err
	}
	return s, s.LocalAddr(), nil
}
func (g *xlGen) AllocateListener(c turn.AllocateListenerConfig) (net.Listener, net.Addr, error) {
	return nil, nil, fmt.Errorf("xl: no tcp allocations")
}
func (g *xlGen) AllocateConn(c turn.AllocateConnConfig) (net.Conn, error) {
	return nil, fmt.Errorf("xl: no tcp allocations")
}

func (w *XLWorld) viol(class string, key map[string]string, format string, args ...any) {
	w.K.Violate(&Violation{Property: "C04", Class: class, Key: key, Detail: fmt.Sprintf(format, args...)})
}

func NewXLWorld(k *Kernel, p *Plan) *XLWorld {
	w := &XLWorld{K: k, P: p, Eps: map[string]*xlEndpoint{}, Peer: map[string]*UDPSock{}, pgot: map[string][]xlData{}, started: make(chan struct{})}
	w.Net = NewNet(k)
	w.Net.Obs = NopObserver{}
	w.LF = NewLoggerFactory(k, p.Expect != nil)
	return w
}

func (w *XLWorld) start() {
	cfg := w.P.Cfg
	w.IP = net.ParseIP("10.0.0.1")
	w.Net.ServerIPs[w.IP.String()] = true
	w.Ls = []xlListener{{"udp", 3478, net.ParseIP("10.0.0.2")}, {"tcp", 3478, net.ParseIP("10.0.0.3")}}
	if cfg.Extra["udp2"] == 1 {
		w.Ls = append(w.Ls, xlListener{"udp", 3479, net.ParseIP("10.0.0.4")})
	}
	users := map[string]string{}
	for _, u := range cfg.Users {
		users[u.Name] = u.Pass
	}
	sc := turn.ServerConfig{Realm: cfg.Realm, LoggerFactory: w.LF,
		AuthHandler: func(ra *turn.RequestAttributes) (string, []byte, bool) {
			w.K.Yield("cb:Auth", ra.Username)
			pass, ok := users[ra.Username]
			if !ok {
				return "", nil, false
			}
			return ra.Username, turn.GenerateAuthKey(ra.Username, ra.Realm, pass), true
		}}
	ph := func(client net.Addr, peer net.IP) bool { return true }
	var shared *xlGen
	if cfg.Extra["sharegen"] == 1 {
		// the operator gives every listener the same generator instance and no permission
		// handler: still one allocation table per listener
		ph = nil
		shared = &xlGen{w, w.Ls[0].RelayIP}
		for i := range w.Ls {
			w.Ls[i].RelayIP = w.Ls[0].RelayIP
		}
	}
	gen := func(l xlListener) turn.RelayAddressGenerator {
		if shared != nil {
			return shared
		}
		return &xlGen{w, l.RelayIP}
	}
	// PacketConnConfigs first, ListenerConfigs second - the order NewServer keeps them in
	for _, l := range w.Ls {
		if l.Kind != "udp" {
			continue
		}
		s, err := w.Net.ListenUDP("listener", "srv", w.IP, l.Port)
		if err != nil {
			Fatalf("xl listen udp: %v", err)
		}
		sc.PacketConnConfigs = append(sc.PacketConnConfigs, turn.PacketConnConfig{PacketConn: s, RelayAddressGenerator: gen(l), PermissionHandler: ph})
	}
	for _, l := range w.Ls {
		if l.Kind != "tcp" {
			continue
		}
		ln, err := w.Net.ListenTCP("listener", "srv", w.IP, l.Port)
		if err != nil {
			Fatalf("xl listen tcp: %v", err)
		}
		sc.ListenerConfigs = append(sc.ListenerConfigs, turn.ListenerConfig{Listener: ln, RelayAddressGenerator: gen(l), PermissionHandler: ph})
	}
	go func() {
		srv, err := turn.NewServer(sc)
		if err != nil {
			Fatalf("xl NewServer: %v", err)
		}
		w.Srv = srv
		close(w.started)
	}()
	for _, spec := range w.P.Clients {
		e := &xlEndpoint{ID: spec.ID, L: spec.L, Addr: mustUDPAddr(spec.Addr), User: spec.User, Pass: spec.Pass, pend: map[[12]byte]func(*stun.Message){}, perms: map[string]bool{}}
		w.Eps[e.ID] = e
		if w.Ls[e.L].Kind == "udp" {
			// endpoints of two UDP listeners may share ip:port in the plan; a host has one socket
			// per port, so they share the scripted socket and tell answers apart by source port
			key := akey(e.Addr.IP, e.Addr.Port)
			var sock *UDPSock
			for _, o := range w.Eps {
				if o != e && o.udp != nil && akey(o.Addr.IP, o.Addr.Port) == key {
					sock = o.udp
				}
			}
			if sock == nil {
				s, err := w.Net.ListenUDP("client", e.ID, e.Addr.IP, e.Addr.Port)
				if err != nil {
					Fatalf("xl client sock: %v", err)
				}
				sock = s
				s.SetHandler(func(d *Dgram) { w.onUDP(key, d) })
			}
			e.udp = sock
		}
	}
	for _, spec := range w.P.Peers {
		a := mustUDPAddr(spec.Addr)
		s, err := w.Net.ListenUDP("peer", spec.ID, a.IP, a.Port)
		if err != nil {
			Fatalf("xl peer sock: %v", err)
		}
		id := spec.ID
		s.SetHandler(func(d *Dgram) { w.pgot[id] = append(w.pgot[id], xlData{Peer: ustr(d.From), Payload: string(d.Payload)}) })
		w.Peer[id] = s
	}
}

// onUDP routes a datagram from the server to the endpoint of the listener it came from.
func (w *XLWorld) onUDP(clientKey string, d *Dgram) {
	for _, e := range w.sortedEps() {
		if e.udp != nil && akey(e.Addr.IP, e.Addr.Port) == clientKey && w.Ls[e.L].Port == d.From.Port {
			w.onMessage(e, d.Payload)
			return
		}
	}
}

func (w *XLWorld) sortedEps() []*xlEndpoint {
	var out []*xlEndpoint
	for _, e := range w.Eps {
		out = append(out, e)
	}
	sort.Slice(out, func(i, j int) bool { return out[i].ID < out[j].ID })
	return out
}

func (w *XLWorld) onStream(e *xlEndpoint, b []byte) {
	e.inbuf = append(e.inbuf, b...)
	for len(e.inbuf) >= 4 {
		var n int
		if e.inbuf[0]&0xC0 == 0 {
			n = 20 + int(binary.BigEndian.Uint16(e.inbuf[2:4]))
		} else {
			n = 4 + (int(binary.BigEndian.Uint16(e.inbuf[2:4]))+3)/4*4
		}
		if len(e.inbuf) < n {
			return
		}
		w.onMessage(e, append([]byte(nil), e.inbuf[:n]...))
		e.inbuf = e.inbuf[n:]
	}
}

func (w *XLWorld) onMessage(e *xlEndpoint, b []byte) {
	m, ok := decodeSTUN(b)
	if !ok {
		e.got = append(e.got, xlData{Peer: "non-stun", Payload: string(b)})
		return
	}
	switch m.Type.Class {
	case stun.ClassIndication:
		if m.Type.Method == stun.MethodData {
			peer, _ := getXORAddr(m, attrXORPeerAddress)
			data, _ := m.Get(attrData)
			p := "?"
			if peer != nil {
				p = ustr(peer)
			}
			e.got = append(e.got, xlData{Peer: p, Payload: string(data)})
		}
	case stun.ClassSuccessResponse, stun.ClassErrorResponse:
		if h := e.pend[m.TransactionID]; h != nil {
			delete(e.pend, m.TransactionID)
			h(m)
		} else {
			w.viol("xl-stray-response", kv("at", e.ID), "endpoint %s (listener %d) got a %s response with a transaction id it never used", e.ID, e.L, methodName(m.Type.Method))
		}
	}
}

func (w *XLWorld) sendWire(e *xlEndpoint, b []byte) {
	l := w.Ls[e.L]
	if l.Kind == "udp" {
		w.Net.SendUDP(e.Addr, &net.UDPAddr{IP: w.IP, Port: l.Port}, b)
		return
	}
	if e.tcp != nil && e.tcpUp {
		_, _ = e.tcp.Write(b)
		return
	}
	e.tcpQ = append(e.tcpQ, b)
	if e.tcp != nil {
		return
	}
	e.tcp = &TCPConn{}
	w.Net.DialAsync("client", &net.TCPAddr{IP: e.Addr.IP, Port: e.Addr.Port}, &net.TCPAddr{IP: w.IP, Port: l.Port}, func(c *TCPConn, err error) {
		if err != nil {
			e.tcp = nil
			return
		}
		c.SetScripted(func(_ *TCPConn, b []byte) { w.onStream(e, b) }, func(_ *TCPConn, rst bool) {})
		e.tcp, e.tcpUp = c, true
		for _, q := range e.tcpQ {
			_, _ = c.Write(q)
		}
		e.tcpQ = nil
	})
}

// request sends a request, answering one 401/438 challenge with credentials.
func (w *XLWorld) request(e *xlEndpoint, op *Op, method stun.Method, body []stun.Setter, res *xlResult, try int) {
	e.tidCtr++
	var tid [12]byte
	h := Mix(w.P.Seed, HashStr(e.ID), uint64(op.ID), uint64(e.tidCtr))
	binary.BigEndian.PutUint64(tid[0:8], h)
	binary.BigEndian.PutUint32(tid[8:12], uint32(Mix(h, 9)))
	setters := []stun.Setter{stun.NewTransactionIDSetter(tid), stun.NewType(method, stun.ClassRequest)}
	setters = append(setters, body...)
	if e.nonce != "" {
		setters = append(setters, stun.NewUsername(e.User), stun.NewRealm(e.realm), stun.NewNonce(e.nonce), stun.NewLongTermIntegrity(e.User, e.realm, e.Pass))
	}
	setters = append(setters, stun.Fingerprint)
	m, err := stun.Build(setters...)
	if err != nil {
		Fatalf("xl build: %v", err)
	}
	e.pend[tid] = func(r *stun.Message) {
		if r.Type.Class == stun.ClassErrorResponse {
			code := getErrCode(r)
			if (code == 401 || code == 438) && try < 2 {
				var nc stun.Nonce
				var rl stun.Realm
				if nc.GetFrom(r) == nil && rl.GetFrom(r) == nil {
					e.nonce, e.realm = string(nc), string(rl)
					w.request(e, op, method, body, res, try+1)
					return
				}
			}
			res.Done, res.OK, res.Code, res.Msg = true, false, code, r
			return
		}
		res.Done, res.OK, res.Msg = true, true, r
	}
	w.sendWire(e, append([]byte(nil), m.Raw...))
}

func (w *XLWorld) liveCount() int {
	n := 0
	for _, e := range w.Eps {
		if e.alloc {
			n++
		}
	}
	return n
}

// judge evaluates the operation issued last, now that everything it caused has long settled.
func (w *XLWorld) judge() {
	op, res := w.cur, w.curRes
	if op == nil {
		return
	}
	w.cur = nil
	e := w.Eps[op.Actor]
	where := func() map[string]string { return kv("op", op.Kind) }
	switch op.Kind {
	case "allocate":
		if !e.alloc {
			if !res.Done || !res.OK {
				w.viol("xl-wrong-answer", where(), "Allocate of %s (listener %d %s:%d, client %s) without an allocation on that 5-tuple: done=%v code=%d (another listener's client uses the same client address)",
					e.ID, e.L, w.Ls[e.L].Kind, w.Ls[e.L].Port, ustr(e.Addr), res.Done, res.Code)
				break
			}
			relay, ok := getXORAddr(res.Msg, attrXORRelayedAddr)
			if !ok {
				w.viol("xl-wrong-answer", where(), "Allocate success without relayed address")
				break
			}
			if !relay.IP.Equal(w.Ls[e.L].RelayIP) {
				w.viol("xl-wrong-generator", nil, "allocation of %s on listener %d got relayed address %s, which is not from that listener's relay address generator (%s)", e.ID, e.L, ustr(relay), w.Ls[e.L].RelayIP)
			}
			for _, o := range w.Eps {
				if o != e && o.alloc && o.relay != nil && ustr(o.relay) == ustr(relay) {
					w.viol("xl-relay-shared", nil, "relayed address %s given to %s while %s holds it", ustr(relay), e.ID, o.ID)
				}
			}
			e.alloc, e.relay, e.perms = true, relay, map[string]bool{}
		} else if !res.Done || res.OK || res.Code != 437 {
			w.viol("xl-wrong-answer", where(), "second Allocate of %s on its own 5-tuple: done=%v ok=%v code=%d, expected 437", e.ID, res.Done, res.OK, res.Code)
		}
	case "createperm":
		if e.alloc {
			if !res.Done || !res.OK {
				w.viol("xl-wrong-answer", where(), "CreatePermission of %s, which holds an allocation: done=%v code=%d", e.ID, res.Done, res.Code)
			} else {
				e.perms[mustUDPAddr(op.A.Peer).IP.String()] = true
			}
		} else if res.Done && res.OK {
			w.viol("xl-wrong-answer", where(), "CreatePermission of %s, which holds no allocation on its 5-tuple, succeeded (on whose allocation?)", e.ID)
		}
	case "refresh":
		if e.alloc {
			if !res.Done || !res.OK {
				w.viol("xl-wrong-answer", where(), "Refresh of %s, which holds an allocation: done=%v code=%d", e.ID, res.Done, res.Code)
			} else if op.A.Lifetime == 0 {
				e.alloc = false
			}
		} else if res.Done && res.OK {
			w.viol("xl-wrong-answer", where(), "Refresh(%d) of %s, which holds no allocation on its 5-tuple, succeeded (on whose allocation?)", op.A.Lifetime, e.ID)
		}
	case "tcp_close":
		e.alloc = false
	}
	// deliveries
	for _, id := range sortedKeysOf(w.Peer) {
		got, exp := w.pgot[id], w.expPeer[id]
		if !sameData(got, exp) {
			w.viol("xl-misdelivery", kv("at", "peer"), "after %s of %s peer %s received %d datagram(s) %v, expected %v", op.Kind, op.Actor, id, len(got), short(got), short(exp))
		}
		w.pgot[id] = nil
	}
	for _, o := range w.sortedEps() {
		got, exp := o.got, w.expEp[o.ID]
		if !sameData(got, exp) {
			w.viol("xl-misdelivery", kv("at", "client"), "after %s of %s endpoint %s (listener %d, %s) received %v, expected %v", op.Kind, op.Actor, o.ID, o.L, ustr(o.Addr), short(got), short(exp))
		}
		o.got = nil
	}
	w.expPeer, w.expEp = nil, nil
	if w.Srv != nil {
		w.K.Inspecting.Store(true) // every handler has returned and nothing is parked: the locks are free
		n := w.Srv.AllocationCount()
		w.K.Inspecting.Store(false)
		if n != w.liveCount() {
			w.viol("xl-count", nil, "after %s of %s the server reports %d allocations, the endpoints hold %d", op.Kind, op.Actor, n, w.liveCount())
			// trust nothing further about who holds what
			w.abort = true
		}
	}
}

func sortedKeysOf(m map[string]*UDPSock) []string {
	var ks []string
	for k := range m {
		ks = append(ks, k)
	}
	sort.Strings(ks)
	return ks
}

func sameData(a, b []xlData) bool {
	if len(a) != len(b) {
		return false
	}
	for i := range a {
		if a[i] != b[i] {
			return false
		}
	}
	return true
}

func short(d []xlData) string {
	s := "["
	for i, x := range d {
		if i > 0 {
			s += " "
		}
		s += fmt.Sprintf("%s:%dB", x.Peer, len(x.Payload))
	}
	return s + "]"
}

func (w *XLWorld) exec(op *Op) {
	w.cur, w.curRes = op, &xlResult{}
	w.expPeer, w.expEp = map[string][]xlData{}, map[string][]xlData{}
	e := w.Eps[op.Actor]
	switch op.Kind {
	case "allocate":
		w.request(e, op, stun.MethodAllocate, []stun.Setter{aReqTransport(17)}, w.curRes, 0)
	case "createperm":
		a := mustUDPAddr(op.A.Peer)
		w.request(e, op, stun.MethodCreatePermission, []stun.Setter{aPeer(a.IP, a.Port)}, w.curRes, 0)
	case "refresh":
		w.request(e, op, stun.MethodRefresh, []stun.Setter{aLifetime(uint32(op.A.Lifetime))}, w.curRes, 0)
	case "send":
		a := mustUDPAddr(op.A.Peer)
		payload := MakePayload(w.P.Seed, e.ID, op)
		m, err := stun.Build(stun.TransactionID, stun.NewType(stun.MethodSend, stun.ClassIndication), aPeer(a.IP, a.Port), aData(payload))
		if err != nil {
			Fatalf("xl send: %v", err)
		}
		if e.alloc && e.perms[a.IP.String()] {
			for _, ps := range w.P.Peers {
				if ps.Addr == op.A.Peer {
					w.expPeer[ps.ID] = append(w.expPeer[ps.ID], xlData{Peer: ustr(e.relay), Payload: string(payload)})
				}
			}
		}
		w.sendWire(e, append([]byte(nil), m.Raw...))
	case "peer_send":
		// a peer writes to the relayed address the target endpoint was last given
		t := w.Eps[op.A.Target]
		if t == nil || t.relay == nil {
			return
		}
		ps := w.Peer[op.Actor]
		payload := MakePayload(w.P.Seed, op.Actor, op)
		from := ps.LocalAddr().(*net.UDPAddr)
		if t.alloc && t.perms[from.IP.String()] {
			w.expEp[t.ID] = append(w.expEp[t.ID], xlData{Peer: ustr(from), Payload: string(payload)})
		}
		w.Net.SendUDP(from, t.relay, payload)
	case "tcp_close":
		if e.tcp != nil && e.tcpUp {
			_ = e.tcp.Close()
		}
		e.tcp, e.tcpUp, e.inbuf, e.tcpQ = nil, false, nil, nil
		e.pend = map[[12]byte]func(*stun.Message){}
	case "wait":
	}
}

func (w *XLWorld) scheduleNext() {
	if w.opIdx >= len(w.P.Ops) || w.abort {
		w.K.At(w.K.Now()+2*sec, "end-of-plan", w.finish)
		return
	}
	op := &w.P.Ops[w.opIdx]
	w.opIdx++
	at := w.prev + op.At.GapNS
	if at < w.K.Now() {
		at = w.K.Now()
	}
	w.K.At(at, fmt.Sprintf("op:%d:%s:%s", op.ID, op.Actor, op.Kind), func() {
		w.judge()
		if w.abort {
			w.scheduleNext()
			return
		}
		w.prev = w.K.Now()
		w.K.Stats.Op(op.Kind)
		w.K.OpIssued(op.ID)
		w.exec(op)
		w.scheduleNext()
	})
}

func (w *XLWorld) finish() {
	w.judge()
	srv := w.Srv
	go func() {
		if srv != nil {
			_ = srv.Close()
		}
	}()
	w.K.At(w.K.Now()+5*sec, "final", func() {
		for _, s := range w.Net.OpenSockets() {
			if s.Role == "relay" || s.Role == "listener" || s.Role == "listener-conn" {
				w.K.Violate(&Violation{Property: "C15", Class: "open-after-server-close", Key: kv("kind", s.Kind+":"+s.Role),
					Detail: fmt.Sprintf("%s %s (%s) still open 5 s after Server.Close with several listeners", s.Kind, s.Role, s.Addr)})
			}
		}
		w.done = true
	})
}

func (w *XLWorld) Run(maxSteps int) string {
	w.start()
	w.K.At(w.K.Now()+50*ms, "begin", func() {
		w.prev = w.K.Now()
		w.scheduleNext()
	})
	return w.K.Drive(maxSteps, func(now int64) {}, func() bool { return w.done })
}

func runXLWorld(t *testing.T, k *Kernel, p *Plan, rec *RunRecord) {
	w := NewXLWorld(k, p)
	reason := w.Run(maxStepsFor(p))
	fillRecord(rec, k, reason)
	rec.States = len(w.Eps)
}
