package sim

import (
	"encoding/binary"
	"encoding/hex"
	"fmt"

	"github.com/pion/stun/v3"
)

func init() { generators["C09"] = genC09 }

// sampleMessages: well-formed messages to mutate.
func sampleMessages(r *RNG) [][]byte {
	var out [][]byte
	tid := [12]byte{}
	copy(tid[:], r.Bytes(12))
	mk := func(setters ...stun.Setter) {
		m, err := stun.Build(append([]stun.Setter{stun.NewTransactionIDSetter(tid)}, setters...)...)
		if err == nil {
			out = append(out, append([]byte(nil), m.Raw...))
		}
	}
	ip := []byte{10, 0, 2, 1}
	mk(stun.BindingRequest, stun.Fingerprint)
	mk(stun.NewType(stun.MethodAllocate, stun.ClassRequest), aReqTransport(17), aLifetime(600), stun.NewUsername("u1"), stun.NewRealm("sim.realm"), stun.NewNonce("abcdef"),
		stun.NewLongTermIntegrity("u1", "sim.realm", "pw-one"), stun.Fingerprint)
	mk(stun.NewType(stun.MethodSend, stun.ClassIndication), aPeer(ip, 5000), aData(r.Bytes(r.Range(0, 64))))
	mk(stun.NewType(stun.MethodChannelBind, stun.ClassRequest), aChannel(0x4001), aPeer(ip, 5000), stun.NewUsername("u1"), stun.NewRealm("sim.realm"), stun.NewNonce("abcdef"),
		stun.NewLongTermIntegrity("u1", "sim.realm", "pw-one"))
	mk(stun.NewType(stun.MethodCreatePermission, stun.ClassRequest), aPeer(ip, 5000), aPeer(ip, 5001))
	mk(stun.NewType(stun.MethodRefresh, stun.ClassRequest), aLifetime(0))
	mk(stun.NewType(stun.MethodData, stun.ClassIndication), aPeer(ip, 5000), aData(r.Bytes(20)))
	mk(stun.NewType(methodConnAttempt, stun.ClassIndication), aPeer(ip, 5000), aConnID(77))
	mk(stun.NewType(stun.MethodAllocate, stun.ClassSuccessResponse), xorAddr{attrXORRelayedAddr, ip, 50000}, aLifetime(600))
	mk(stun.NewType(stun.MethodAllocate, stun.ClassErrorResponse), stun.ErrorCodeAttribute{Code: 401, Reason: []byte("x")}, stun.NewNonce("n"), stun.NewRealm("r"))
	mk(stun.NewType(methodConnect, stun.ClassRequest), aPeer(ip, 5000))
	mk(stun.NewType(methodConnBind, stun.ClassRequest), aConnID(1))
	out = append(out, buildChannelData(0x4000, r.Bytes(r.Range(0, 40)), true))
	out = append(out, buildChannelData(0x7FFF, r.Bytes(3), false))
	return out
}

// hostileBytes: random, mutated from valid messages, or structurally extreme.
func hostileBytes(r *RNG) []byte {
	samples := sampleMessages(r)
	switch r.Intn(11) {
	case 10: // a complete frame of the largest sizes the length fields can announce
		if r.Chance(1, 2) {
			l := r.PickInt([]int{0xFFEC, 0xFFE8, 0xFFF0, 0xFFFC})
			b := make([]byte, 20+l)
			binary.BigEndian.PutUint16(b[0:2], uint16(r.PickInt([]int{0x0001, 0x0101, 0x0017, 0x0016, 0x001c})))
			binary.BigEndian.PutUint16(b[2:4], uint16(l))
			binary.BigEndian.PutUint32(b[4:8], 0x2112A442)
			copy(b[8:], r.Bytes(64))
			return b
		}
		l := r.PickInt([]int{0xFFFC, 0xFFFF, 0xFFF8, 0xFFFB})
		b := make([]byte, 4+(l+3)/4*4)
		binary.BigEndian.PutUint16(b[0:2], uint16(0x4000+r.Intn(4)))
		binary.BigEndian.PutUint16(b[2:4], uint16(l))
		copy(b[4:], r.Bytes(64))
		return b
	case 0:
		return r.Bytes(r.PickInt([]int{0, 1, 3, 4, 19, 20, 21, 100, 1500}))
	case 1: // every class/method pair with a plausible header
		b := make([]byte, 20+4*r.Intn(4))
		binary.BigEndian.PutUint16(b[0:2], uint16(r.Intn(0x4000)))
		binary.BigEndian.PutUint16(b[2:4], uint16(len(b)-20))
		binary.BigEndian.PutUint32(b[4:8], 0x2112A442)
		copy(b[8:20], r.Bytes(12))
		return b
	case 2: // extreme STUN length field
		b := append([]byte(nil), samples[r.Intn(len(samples)-2)]...)
		binary.BigEndian.PutUint16(b[2:4], uint16(r.PickInt([]int{0xFFEC, 0xFFF0, 0xFFFC, 0xFFFF, 0xFFEB, 1, 3, 0})))
		return b
	case 3: // extreme ChannelData length
		b := buildChannelData(uint16(0x4000+r.Intn(0x4000)), r.Bytes(r.Range(0, 16)), r.Chance(1, 2))
		binary.BigEndian.PutUint16(b[2:4], uint16(r.PickInt([]int{0xFFF8, 0xFFFC, 0xFFFF, 0xFFFD, 0, len(b)})))
		return b
	case 4: // attribute length overrunning the message
		b := append([]byte(nil), samples[r.Intn(len(samples)-2)]...)
		if len(b) >= 24 {
			binary.BigEndian.PutUint16(b[22:24], uint16(r.PickInt([]int{0xFFFF, len(b), len(b) - 23, 0x7FFF})))
		}
		return b
	case 5: // unknown comprehension-required attribute
		var tid [stun.TransactionIDSize]byte
		copy(tid[:], r.Bytes(len(tid))) // (never stun.TransactionID here: a plan is a function of its seed alone)
		m, _ := stun.Build(stun.NewTransactionIDSetter(tid), stun.NewType(stun.Method(r.PickInt([]int{1, 3, 4, 6, 8, 9, 10, 11})), stun.MessageClass(r.Intn(4))), rawAttr{stun.AttrType(r.Intn(0x8000)), r.Bytes(r.Range(0, 12))})
		return append([]byte(nil), m.Raw...)
	case 6: // truncation
		b := samples[r.Intn(len(samples))]
		return append([]byte(nil), b[:r.Intn(len(b)+1)]...)
	case 7: // extension
		b := samples[r.Intn(len(samples))]
		return append(append([]byte(nil), b...), r.Bytes(r.Range(1, 40))...)
	default: // bit flips / byte splices
		b := append([]byte(nil), samples[r.Intn(len(samples))]...)
		for k := r.Range(1, 4); k > 0 && len(b) > 0; k-- {
			i := r.Intn(len(b) * 8)
			b[i/8] ^= 1 << (i % 8)
		}
		return b
	}
}

// weirdAttrs: a request body of attributes that are known to the handlers but have odd
// lengths, odd values, odd multiplicity or the wrong company.
func weirdAttrs(r *RNG) string {
	types := []int{0x000C, 0x000D, 0x0012, 0x0013, 0x0016, 0x0017, 0x0018, 0x0019, 0x001A, 0x0020, 0x0022, 0x002A, 0x8000, 0x8022, 0x7F00, 0x0006, 0x0014, 0x0015}
	lens := []int{0, 1, 2, 3, 4, 5, 7, 8, 9, 12, 16, 20, 21, 64}
	out := ""
	for n := r.Range(1, 5); n > 0; n-- {
		t := types[r.Intn(len(types))]
		v := r.Bytes(lens[r.Intn(len(lens))])
		switch r.Intn(4) {
		case 0: // well-formed value of that type, sometimes
			switch t {
			case 0x0012, 0x0016, 0x0020:
				v = []byte{0, byte(r.PickInt([]int{1, 2, 0, 3})), 0x21, 0x12, 0x2B, 0x12, 0xA6, 0x43}
				if v[1] == 2 {
					v = append(v, r.Bytes(12)...)
				}
			case 0x000C:
				v = []byte{byte(r.PickInt([]int{0x40, 0x7F, 0x3F, 0x80, 0})), byte(r.Intn(256)), 0, 0}
			case 0x000D:
				v = []byte{0, 0, byte(r.Intn(2)), byte(r.Intn(256))}
			case 0x0019:
				v = []byte{byte(r.PickInt([]int{17, 6, 0, 255})), 0, 0, 0}
			case 0x0017, 0x8000:
				v = []byte{byte(r.PickInt([]int{1, 2, 0, 3})), 0, 0, 0}
			case 0x002A:
				v = r.Bytes(4)
			}
		case 1:
			for i := range v {
				v[i] = 0
			}
		}
		if out != "" {
			out += ";"
		}
		out += fmt.Sprintf("%04x:%s", t, hex.EncodeToString(v))
	}
	return out
}

// genC09Authed: authenticated requests with odd bodies, from the owner of an allocation and
// from a user without one, over UDP or a stream.
func genC09Authed(p *Plan, r *RNG) {
	baseSrvConfig(p, r)
	p.Flavor = "hostile-authed"
	if r.Chance(1, 3) {
		p.Cfg.Listener = "tcp"
		p.Flavor = "hostile-authed-tcp"
		if r.Chance(1, 2) {
			p.Cfg.Extra = map[string]int64{"tcp_peers": 1}
		}
	}
	p.Clients = []ClientSpec{
		{ID: "c1", Addr: "10.0.1.1:4000", User: "u1", Pass: "pw-one"},
		{ID: "c2", Addr: "10.0.1.2:4013", User: "u2", Pass: "pw-two"},
		{ID: "c3", Addr: "10.0.1.3:4026", User: "u3", Pass: "pw-three"},
	}
	p.Peers = []PeerSpec{{ID: "p1", Addr: "10.0.2.1:5000"}}
	tr := ""
	if p.Cfg.Extra["tcp_peers"] == 1 {
		tr = "tcp"
	}
	p.Ops = append(p.Ops, Op{Actor: "c1", Kind: "allocate", At: gap(100 * ms), A: OpArgs{Lifetime: -1, Transport: tr}})
	p.Ops = append(p.Ops, Op{Actor: "c1", Kind: "createperm", At: gap(200 * ms), A: OpArgs{Peer: "10.0.2.1:5000"}})
	p.Ops = append(p.Ops, Op{Actor: "c2", Kind: "allocate", At: gap(100 * ms), A: OpArgs{Lifetime: -1}})
	// c3 learns a nonce with a plain allocate that is refused (bad family) or accepted
	p.Ops = append(p.Ops, Op{Actor: "c3", Kind: "allocate", At: gap(100 * ms), A: OpArgs{Lifetime: -1, Family: r.Pick([]string{"", "bad"})}})
	n := r.Range(2, 14)
	for i := 0; i < n; i++ {
		who := r.Pick([]string{"c1", "c1", "c3"})
		meth := r.Pick([]string{"allocate", "refresh", "createperm", "chanbind", "chanbind", "connect", "connbind"})
		p.Ops = append(p.Ops, Op{Actor: who, Kind: "weird", At: gap(int64(r.Range(20, 600)) * ms), A: OpArgs{S: meth, Raw: weirdAttrs(r)}})
	}
	// liveness: everybody is still served, and the untouched allocation still works
	p.Ops = append(p.Ops, Op{Actor: "c2", Kind: "binding", At: gap(500 * ms)})
	p.Ops = append(p.Ops, Op{Actor: "c2", Kind: "refresh", At: gap(200 * ms), A: OpArgs{Lifetime: 600}})
	if p.Cfg.Listener != "tcp" {
		p.Ops = append(p.Ops, Op{Actor: "c1", Kind: "binding", At: gap(200 * ms)})
		p.Ops = append(p.Ops, Op{Actor: "c3", Kind: "binding", At: gap(200 * ms)})
	}
	p.QuietNS = 5 * sec
}

func genC09(p *Plan, r *RNG) {
	if r.Chance(1, 10) {
		genC09TLS(p, r)
		return
	}
	switch r.Intn(5) {
	case 0:
		genC09Client(p, r)
		return
	case 1:
		genC09Frame(p, r)
		return
	case 2:
		genC09Authed(p, r)
		return
	}
	baseSrvConfig(p, r)
	p.Flavor = "hostile-udp"
	if r.Chance(1, 2) {
		p.Cfg.Listener = "tcp"
		p.Flavor = "hostile-tcp"
		cuts, reads := genCuts(r)
		p.Streams = []StreamCut{{Conn: "*", Cuts: cuts, Reads: reads, Coalesce: r.Chance(1, 2)}}
	}
	p.Cfg.InboundMTU = r.PickInt([]int{0, 0, 576, 65535})
	p.Clients = []ClientSpec{
		{ID: "c1", Addr: "10.0.1.1:4000", User: "u1", Pass: "pw-one"},
		{ID: "a1", Addr: "10.0.3.1:6666", User: "nobody", Pass: "x"},
		{ID: "c2", Addr: "10.0.1.2:4013", User: "u2", Pass: "pw-two"},
	}
	p.Peers = []PeerSpec{{ID: "p1", Addr: "10.0.2.1:5000"}}
	p.Ops = append(p.Ops, Op{Actor: "c1", Kind: "allocate", At: gap(100 * ms), A: OpArgs{Lifetime: -1}})
	p.Ops = append(p.Ops, Op{Actor: "c1", Kind: "createperm", At: gap(200 * ms), A: OpArgs{Peer: "10.0.2.1:5000"}})
	p.Ops = append(p.Ops, Op{Actor: "c2", Kind: "allocate", At: gap(100 * ms), A: OpArgs{Lifetime: -1}})
	n := r.Range(1, 12)
	for i := 0; i < n; i++ {
		who := r.Pick([]string{"a1", "a1", "c1"})
		raw := hostileBytes(r)
		if p.Cfg.Listener != "tcp" && len(raw) > 65507 {
			raw = raw[:65507] // no datagram is larger
		}
		if r.Chance(1, 6) {
			// hostile bytes at the relay socket
			p.Ops = append(p.Ops, Op{Actor: "p1", Kind: "peer_send", At: gap(int64(r.Range(1, 500)) * ms), A: OpArgs{Target: "c1", Len: r.PickInt([]int{0, 1, 20, 1600, 1601, 65507}), Content: r.Pick([]string{"stunlike", "chanlike", "stunvalid", "rand"})}})
			continue
		}
		if p.Cfg.Listener == "tcp" && r.Chance(1, 6) {
			// an oversize frame (more than any read buffer holds) with a well-formed request right
			// behind it in the same write: the frame is skipped, the request is served
			big, _ := stun.Build(stun.NewTransactionIDSetter([12]byte{9, 9, 9, byte(i)}), stun.BindingRequest, rawAttr{stun.AttrType(0x8055), r.Bytes(r.PickInt([]int{1700, 4000, 9000}))})
			var tid [12]byte
			copy(tid[:], r.Bytes(12))
			req, _ := stun.Build(stun.NewTransactionIDSetter(tid), stun.BindingRequest, stun.Fingerprint)
			raw = append(append([]byte(nil), big.Raw...), req.Raw...)
		}
		p.Ops = append(p.Ops, Op{Actor: who, Kind: "raw", At: gap(int64(r.Range(1, 500)) * ms), A: OpArgs{Raw: hex.EncodeToString(raw)}})
	}
	// liveness: the same and another party are still served
	p.Ops = append(p.Ops, Op{Actor: "c2", Kind: "binding", At: gap(500 * ms)})
	p.Ops = append(p.Ops, Op{Actor: "c2", Kind: "refresh", At: gap(200 * ms), A: OpArgs{Lifetime: 600}})
	if p.Cfg.Listener != "tcp" {
		p.Ops = append(p.Ops, Op{Actor: "c1", Kind: "binding", At: gap(200 * ms)})
		p.Ops = append(p.Ops, Op{Actor: "c1", Kind: "refresh", At: gap(200 * ms), A: OpArgs{Lifetime: 600}})
		p.Ops = append(p.Ops, Op{Actor: "a1", Kind: "binding", At: gap(200 * ms)})
	}
	p.QuietNS = 5 * sec
}

func genC09Client(p *Plan, r *RNG) {
	p.World = "cli"
	p.Flavor = "hostile-client"
	p.Cfg = Config{Realm: "sim.realm", LatCSns: int64(r.Range(1, 40))*ms + 3, LatSPns: ms, RTOms: 100, AllocLifeS: 600, Extra: map[string]int64{}}
	if r.Chance(1, 3) {
		// the client speaks TURN over a stream: everything arrives through its STUNConn
		p.Cfg.Extra["stream"] = 1
		p.Flavor = "hostile-client-stream"
	}
	if r.Chance(1, 2) {
		p.Ops = append(p.Ops, Op{Actor: "app", Kind: "alloc", At: gap(10 * ms)})
		p.Ops = append(p.Ops, Op{Actor: "app", Kind: "writeto", At: gap(800 * ms), A: OpArgs{Peer: "10.0.2.1:5000", Len: 50}})
	} else if r.Chance(1, 2) {
		p.Ops = append(p.Ops, Op{Actor: "app", Kind: "alloc_tcp", At: gap(10 * ms)})
	}
	n := r.Range(1, 14)
	for i := 0; i < n; i++ {
		hb := hostileBytes(r)
		if p.Cfg.Extra["stream"] != 1 && len(hb) > 65507 {
			hb = hb[:65507]
		}
		raw := hex.EncodeToString(hb)
		a := OpArgs{Raw: raw}
		if r.Chance(1, 2) {
			a.Peer = fmt.Sprintf("10.0.3.%d:%d", r.Range(1, 3), 6000+r.Intn(10))
		}
		kind := "srv_raw"
		if r.Chance(1, 2) {
			kind = "handle_inbound"
		}
		p.Ops = append(p.Ops, Op{Actor: "srv", Kind: kind, At: gap(int64(r.Range(1, 400)) * ms), A: a})
	}
	if p.Cfg.Extra["stream"] != 1 && r.Chance(1, 3) {
		// one more thing a stranger can send: a response with the identifier of the request that
		// is pending, before the server's own. The call ends with a response either way
		p.Reactions = append(p.Reactions, Reaction{Method: "binding", Attempt: r.Range(1, 2), Do: "stranger"})
		p.Flavor += "+stranger-response"
	}
	p.Ops = append(p.Ops, Op{Actor: "app", Kind: "bind_txn", At: gap(1 * sec), A: OpArgs{Flags: []string{"probe"}}})
	p.QuietNS = 15 * sec
}

// genC09Frame: hostile bytes on the stream packetiser (every prefix / segmentation).
func genC09Frame(p *Plan, r *RNG) {
	p.World = "frame"
	p.Flavor = "hostile-stream"
	p.Cfg = Config{LatCSns: int64(r.Range(1, 20)) * ms, LatSPns: ms, Extra: map[string]int64{"hostile": 1}}
	cuts, reads := genCuts(r)
	p.Streams = []StreamCut{{Conn: "wr>rd", Cuts: cuts, Reads: reads, Coalesce: r.Chance(1, 2)}}
	n := r.Range(1, 6)
	for i := 0; i < n; i++ {
		p.Ops = append(p.Ops, Op{Kind: "bytes", At: gap(int64(r.PickInt([]int{0, 1, 50})) * ms), A: OpArgs{Raw: hex.EncodeToString(hostileBytes(r))}})
	}
	if r.Chance(1, 2) {
		p.Ops = append(p.Ops, Op{Kind: r.Pick([]string{"fin", "rst"}), At: gap(int64(r.Range(0, 100)) * ms)})
	}
	p.QuietNS = 3 * sec
}

// genC09TLS: a TLS listener. Clients that handshake and ask for their address, clients that
// talk in the clear (STUN, hostile bytes), clients that connect and say nothing, clients
// that hang up in the middle of whatever they were doing.
func genC09TLS(p *Plan, r *RNG) {
	p.World = "tls"
	p.Flavor = "tls-listener"
	p.Cfg = Config{Realm: "sim.realm", LatCSns: int64(r.Range(1, 40))*ms + 3, LatSPns: ms, Extra: map[string]int64{}}
	n := r.Range(1, 4)
	for i := 0; i < n; i++ {
		id := fmt.Sprintf("c%d", i+1)
		p.Clients = append(p.Clients, ClientSpec{ID: id, Addr: fmt.Sprintf("10.0.1.%d:%d", 1+i, 4000+i*13)})
		g := gap(int64(r.Range(1, 800)) * ms)
		switch r.Intn(4) {
		case 0, 1:
			p.Ops = append(p.Ops, Op{Actor: id, Kind: "tls_connect", At: g})
			for k := r.Range(1, 3); k > 0; k-- {
				p.Ops = append(p.Ops, Op{Actor: id, Kind: "tls_binding", At: gap(int64(r.Range(300, 1500)) * ms)})
			}
		case 2:
			// bytes that are no handshake: STUN in the clear, or anything
			p.Ops = append(p.Ops, Op{Actor: id, Kind: "connect", At: g})
			raw := hostileBytes(r)
			if r.Chance(1, 2) {
				var tid [12]byte
				copy(tid[:], r.Bytes(12))
				m, _ := stun.Build(stun.NewTransactionIDSetter(tid), stun.BindingRequest, stun.Fingerprint)
				raw = m.Raw
			}
			if len(raw) > 4000 {
				raw = raw[:4000]
			}
			p.Ops = append(p.Ops, Op{Actor: id, Kind: "raw", At: gap(int64(r.Range(100, 900)) * ms), A: OpArgs{Raw: hex.EncodeToString(raw)}})
		case 3:
			p.Ops = append(p.Ops, Op{Actor: id, Kind: "connect", At: g}) // says nothing
		}
		if r.Chance(1, 4) {
			o := Op{Actor: id, Kind: "hangup", At: gap(int64(r.Range(1, 12000)) * ms)}
			if r.Chance(1, 3) {
				o.A.Flags = []string{"rst"}
			} else if r.Chance(1, 2) {
				o.A.Flags = []string{"notify"}
			}
			p.Ops = append(p.Ops, o)
		}
	}
	if r.Chance(1, 4) {
		// a crowd that connects and never finishes its handshake (silence, or the first bytes of
		// a ClientHello and no more), and somebody who arrives while they are all there: the
		// listener serves him as if he were alone
		p.Flavor += "+stalled-crowd"
		k := r.PickInt([]int{8, 9, 16, 40})
		for i := 0; i < k; i++ {
			id := fmt.Sprintf("s%d", i+1)
			p.Clients = append(p.Clients, ClientSpec{ID: id, Addr: fmt.Sprintf("10.0.3.%d:%d", 1+i, 4100+i)})
			p.Ops = append(p.Ops, Op{Actor: id, Kind: "connect", At: gap(int64(r.Range(0, 20)) * ms)})
			if r.Chance(1, 2) {
				p.Ops = append(p.Ops, Op{Actor: id, Kind: "raw", At: gap(int64(r.Range(1, 30)) * ms), A: OpArgs{Raw: "160301020001"}})
			}
		}
		p.Clients = append(p.Clients, ClientSpec{ID: "cz", Addr: "10.0.1.77:4777"})
		p.Ops = append(p.Ops, Op{Actor: "cz", Kind: "tls_connect", At: gap(int64(r.Range(200, 3000)) * ms)})
		p.Ops = append(p.Ops, Op{Actor: "cz", Kind: "tls_binding", At: gap(int64(r.Range(1000, 2500)) * ms)})
	}
	p.Ops = append(p.Ops, Op{Actor: "", Kind: "wait", At: gap(int64(r.PickInt([]int{1, 5, 17})) * sec)})
	p.QuietNS = 2 * sec
}
