package sim

import (
	"fmt"
	"net"

	"github.com/pion/stun/v3"
)

// dataConn is a client data connection of RFC 6062 (scripted side).
type dataConn struct {
	Idx     int
	Conn    *TCPConn
	CID     uint32
	Up      bool
	Bound   bool
	Failed  bool
	inbuf   []byte
	Recv    []byte // bytes received after the ConnectionBind success
	Sent    []byte // bytes written after the ConnectionBind success
	Closed  bool
	FinAt   int64 // the plan closed this end gracefully at that instant, while it was open
	PlanEnd int64 // the plan closed or reset this end at that instant (0: it never did)
	pending []byte
}

func (c *RawClient) doTCPOp(op *Op) bool {
	w := c.W
	switch op.Kind {
	case "connbind":
		cid := uint32(0xdeadbeef)
		if op.A.N >= 0 && op.A.N < len(c.ConnIDs) {
			cid = c.ConnIDs[op.A.N]
		} else if src := w.Clients[op.A.Target]; src != nil && src != c && op.A.N >= 0 {
			src.mu.Lock()
			if op.A.N < len(src.ConnIDs) {
				cid = src.ConnIDs[op.A.N] // another client's connection id
			}
			src.mu.Unlock()
		}
		dc := &dataConn{Idx: len(c.Data), CID: cid}
		c.Data = append(c.Data, dc)
		// the request, authenticated like on the control connection
		tid := c.newTID(op, 0)
		setters := []stun.Setter{stun.NewTransactionIDSetter(tid), stun.NewType(methodConnBind, stun.ClassRequest), aConnID(cid)}
		pre, post := c.credSetters(op, true)
		setters = append(setters, pre...)
		setters = append(setters, stun.Fingerprint)
		msg, err := stun.Build(setters...)
		if err != nil {
			Fatalf("build connbind: %v", err)
		}
		if post != nil {
			post(msg)
		}
		raw := append([]byte(nil), msg.Raw...)
		mode := op.A.Cred
		if mode == "" {
			mode = "ok"
		}
		if hasFlag(op, "oncontrol") {
			// a confused client sends the ConnectionBind on its control transport instead of a
			// new data connection: it must be refused and must change nothing
			c.Data = c.Data[:len(c.Data)-1]
			c.tids[op.ID] = tid
			c.pending[tid] = &pendOp{op: op, authed: true}
			c.sendWire(raw, &Intent{Client: c.Spec.ID, OpID: op.ID, Kind: "connbind", Cred: mode})
			return true
		}
		w.Net.DialAsync("client-data", &net.TCPAddr{IP: c.Addr.IP, Port: 0}, &net.TCPAddr{IP: w.SrvAddr.IP, Port: w.SrvAddr.Port},
			func(conn *TCPConn, err error) {
				c.mu.Lock()
				defer c.mu.Unlock()
				if err != nil {
					dc.Failed = true
					return
				}
				dc.Conn = conn
				dc.Up = true
				w.Net.SetName(akey(conn.laddr.IP, conn.laddr.Port), fmt.Sprintf("%s-d%d", c.Spec.ID, dc.Idx))
				conn.SetScripted(func(_ *TCPConn, b []byte) { c.onDataConn(dc, b) },
					func(_ *TCPConn, rst bool) { c.mu.Lock(); dc.Closed = true; c.mu.Unlock() })
				if !w.K.Free {
					w.Mon.RegisterIntent(akey(conn.laddr.IP, conn.laddr.Port), raw, &Intent{Client: c.Spec.ID, OpID: op.ID, Kind: "connbind", Cred: mode})
				}
				_, _ = conn.Write(raw)
			})
	case "data_send":
		if op.A.N >= 0 && op.A.N < len(c.Data) {
			dc := c.Data[op.A.N]
			if dc.Up && dc.Bound && !dc.Closed {
				p := MakePayload(w.P.Seed, c.Spec.ID, op)
				dc.Sent = append(dc.Sent, p...)
				_, _ = dc.Conn.Write(p)
			}
		}
	case "data_close":
		if op.A.N >= 0 && op.A.N < len(c.Data) {
			dc := c.Data[op.A.N]
			if dc.Up && !dc.Closed {
				dc.Closed = true
				dc.PlanEnd = c.W.K.Now()
				if hasFlag(op, "rst") {
					dc.Conn.reset()
				} else {
					dc.FinAt = c.W.K.Now()
					_ = dc.Conn.closeHow(false)
				}
			}
		}
	default:
		return false
	}
	return true
}

func (c *RawClient) onDataConn(dc *dataConn, b []byte) {
	c.mu.Lock()
	defer c.mu.Unlock()
	if dc.Bound {
		dc.Recv = append(dc.Recv, b...)
		return
	}
	dc.inbuf = append(dc.inbuf, b...)
	n, ok := refFrameLen(dc.inbuf)
	if !ok || n > len(dc.inbuf) {
		return
	}
	frame := dc.inbuf[:n]
	rest := dc.inbuf[n:]
	if msg, ok := decodeSTUN(frame); ok && msg.Type.Method == methodConnBind {
		if msg.Type.Class == stun.ClassSuccessResponse {
			dc.Bound = true
			dc.Recv = append(dc.Recv, rest...)
		} else {
			dc.Failed = true
		}
	}
	dc.inbuf = nil
}

// ---- peers over TCP

type peerConn struct {
	Conn   *TCPConn
	Recv   []byte
	Sent   []byte
	Closed bool
	FinAt  int64 // the plan closed this end gracefully at that instant, while it was open
	PlanEnd int64 // the plan closed or reset this end at that instant (0: it never did)
	In     bool // accepted at the peer's listener (the relay dialled out)
}

func (p *PeerActor) startTCP() {
	w := p.W
	l, err := w.Net.ListenTCP("peer", p.Spec.ID, p.Addr.IP, p.Addr.Port)
	if err != nil {
		return
	}
	p.ln = l
	l.OnConn = func(c *TCPConn) {
		pc := &peerConn{Conn: c, In: true}
		p.mu.Lock()
		p.Conns = append(p.Conns, pc)
		p.mu.Unlock()
		c.SetScripted(func(_ *TCPConn, b []byte) { p.mu.Lock(); pc.Recv = append(pc.Recv, b...); p.mu.Unlock() },
			func(_ *TCPConn, rst bool) { p.mu.Lock(); pc.Closed = true; p.mu.Unlock() })
	}
}

func (p *PeerActor) doTCPOp(op *Op) bool {
	w := p.W
	switch op.Kind {
	case "peer_connect":
		var dst *net.TCPAddr
		if r := w.realTCPRelayOf(op.A.Target); r != nil {
			dst = r
		} else if r := w.relayOf(op.A.Target); r != nil {
			dst = &net.TCPAddr{IP: r.IP, Port: r.Port}
		} else {
			dst = &net.TCPAddr{IP: w.Gen.IP4, Port: 50000}
		}
		src := &net.TCPAddr{IP: p.Addr.IP, Port: op.A.N}
		w.Net.DialAsync("peer", src, dst, func(c *TCPConn, err error) {
			if err != nil {
				return
			}
			pc := &peerConn{Conn: c}
			p.mu.Lock()
			p.Conns = append(p.Conns, pc)
			p.mu.Unlock()
			c.SetScripted(func(_ *TCPConn, b []byte) { p.mu.Lock(); pc.Recv = append(pc.Recv, b...); p.mu.Unlock() },
				func(_ *TCPConn, rst bool) { p.mu.Lock(); pc.Closed = true; p.mu.Unlock() })
		})
	case "peer_data":
		p.mu.Lock()
		defer p.mu.Unlock()
		if op.A.N >= 0 && op.A.N < len(p.Conns) {
			pc := p.Conns[op.A.N]
			if !pc.Closed {
				b := MakePayload(w.P.Seed, p.Spec.ID, op)
				pc.Sent = append(pc.Sent, b...)
				_, _ = pc.Conn.Write(b)
			}
		}
	case "peer_close":
		p.mu.Lock()
		defer p.mu.Unlock()
		if op.A.N >= 0 && op.A.N < len(p.Conns) {
			pc := p.Conns[op.A.N]
			if !pc.Closed {
				pc.Closed = true
				pc.PlanEnd = w.K.Now()
				if hasFlag(op, "rst") {
					pc.Conn.reset()
				} else {
					pc.FinAt = w.K.Now()
					_ = pc.Conn.closeHow(false)
				}
			}
		}
	default:
		return false
	}
	return true
}

// checkStreams (C16): once bound, the two byte streams are equal in content and order.
func (w *SrvWorld) checkStreams() {
	m := w.Mon
	m.mu.Lock()
	defer m.mu.Unlock()
	for _, as := range m.M.Allocs {
		for _, a := range as {
			for cid, t := range a.TCPs {
				if debugWrites {
					w.K.Logf("checkStreams cid=%d bound=%v conn=%v", cid, t.Bound, t.Conn != nil)
				}
				if !t.Bound || t.Conn == nil {
					continue
				}
				srvData := m.dataConns[cid]
				if srvData == nil || srvData.peer == nil || t.Conn.peer == nil {
					continue
				}
				// scripted endpoints
				var dc *dataConn
				for _, c := range w.Clients {
					for _, d := range c.Data {
						if d.Conn == srvData.peer {
							dc = d
						}
					}
				}
				var pc *peerConn
				for _, p := range w.Peers {
					for _, x := range p.Conns {
						if x.Conn == t.Conn.peer {
							pc = x
						}
					}
				}
				if debugWrites {
					w.K.Logf("checkStreams cid=%d dc=%v pc=%v", cid, dc != nil, pc != nil)
				}
				if dc == nil || pc == nil {
					continue
				}
				w.cmpStream(cid, "c2p", dc.Sent, pc.Recv, dc.Closed || pc.Closed)
				w.cmpStream(cid, "p2c", pc.Sent, dc.Recv, dc.Closed || pc.Closed)
				// what an end wrote before it closed (FIN, not reset) comes before its close: it
				// all arrives, unless the other end was closed by the plan too, or the allocation went meanwhile
				alive := func(t int64) bool {
					return (a.End == nil || a.End.Lo > t+5*sec) && a.Deadline.Lo > t+5*sec && (m.serverClosedAt == 0 || m.serverClosedAt > t+5*sec)
				}
				// (the other end: never closed by the plan at all - what was written before a bind
				// is piped only after it, so "closed later than the writer" is not late enough)
				// (and the allocation outlives both the close and the bind: bytes written before the
				// bind travel after it)
				if dc.FinAt > 0 && pc.PlanEnd == 0 && alive(maxI(dc.FinAt, t.BoundAt.Hi)) {
					w.cmpStreamEnd(cid, "c2p", dc.Sent, pc.Recv)
				}
				if pc.FinAt > 0 && dc.PlanEnd == 0 && alive(maxI(pc.FinAt, t.BoundAt.Hi)) {
					w.cmpStreamEnd(cid, "p2c", pc.Sent, dc.Recv)
				}
			}
		}
	}
}

// cmpStreamEnd: the sender closed gracefully while the pipe was up and nothing else ended it.
func (w *SrvWorld) cmpStreamEnd(cid uint32, dir string, sent, recv []byte) {
	if len(recv) >= len(sent) || !w.lossFree || len(w.K.StallIntervals()) != 0 || len(w.P.IOFaults) != 0 || w.pausedTCP {
		if len(recv) >= len(sent) && len(sent) > 0 {
			w.K.Stats.Probe("tcp_stream_whole_before_fin")
		}
		return
	}
	w.K.Violate(&Violation{Property: "C16", Class: "stream-mismatch", Key: kv("dir", dir, "how", "cut-before-close"),
		Detail: fmt.Sprintf("connection %d %s: %d bytes were written and the writer then closed its end; %d arrived before the other end saw the close", cid, dir, len(sent), len(recv))})
}

func (w *SrvWorld) cmpStream(cid uint32, dir string, sent, recv []byte, closed bool) {
	n := len(recv)
	if n > len(sent) || string(sent[:n]) != string(recv) {
		w.K.Violate(&Violation{Property: "C16", Class: "stream-mismatch", Key: kv("dir", dir),
			Detail: fmt.Sprintf("connection %d %s: %d bytes sent, %d received, and the received bytes are not a prefix of the sent ones", cid, dir, len(sent), len(recv))})
		return
	}
	if n < len(sent) && !closed && w.lossFree && len(w.K.StallIntervals()) == 0 && len(w.P.IOFaults) == 0 {
		w.K.Violate(&Violation{Property: "C16", Class: "stream-mismatch", Key: kv("dir", dir, "how", "short"),
			Detail: fmt.Sprintf("connection %d %s: %d bytes sent but only %d arrived although neither side closed", cid, dir, len(sent), n)})
	}
	if len(sent) > 0 {
		w.K.Stats.Probe("tcp_stream_compared")
	}
}
