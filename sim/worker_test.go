package sim

import (
	crand "crypto/rand"
	"bufio"
	"encoding/json"
	"flag"
	"fmt"
	"os"
	"runtime"
	"runtime/debug"
	"sort"
	"strings"
	"testing"
	"testing/cryptotest"
	"testing/synctest"
	"time"

	"github.com/pion/turn/v5"
)

var (
	fMode    = flag.String("mode", "", "explore | run | gen")
	fProp    = flag.String("prop", "", "property id")
	fTier    = flag.String("tier", "quick", "quick | thorough")
	fSeed    = flag.Uint64("seed", 1, "VERIF_SEED")
	fFrom    = flag.Int("from", 0, "first run index")
	fTo      = flag.Int("to", 0, "one past the last run index")
	fStride  = flag.Int("stride", 1, "run index stride (worker count)")
	fPlan    = flag.String("plan", "", "plan file (mode run)")
	fOut     = flag.String("out", "", "output file for run records (JSON lines)")
	fCur     = flag.String("cur", "", "file holding the plan currently executing")
	fLog     = flag.Bool("log", false, "emit the canonical event log")
	fBudget  = flag.Duration("budget", 0, "wall-clock budget for explore")
	fSamples = flag.Int("samples", 3, "sample plans to keep in the output")
)

// RunRecord is what one executed plan reports.
type RunRecord struct {
	Run        int          `json:"run"`
	Flavor     string       `json:"flavor,omitempty"`
	World      string       `json:"world,omitempty"`
	Reason     string       `json:"reason"`
	Steps      int          `json:"steps"`
	VirtualNS  int64        `json:"virtual_ns"`
	Sig        string       `json:"sig"`
	States     int          `json:"states"`
	Violations []*Violation `json:"violations,omitempty"`
	Faults     map[string]int `json:"faults,omitempty"`
	Yields     map[string]int `json:"yields,omitempty"`
	Parks      map[string]int `json:"parks,omitempty"`
	Probes     map[string]int `json:"probes,omitempty"`
	Ops        map[string]int `json:"ops,omitempty"`
	LockSites  map[string]int `json:"lock_sites,omitempty"`
	Requests   int          `json:"requests"`
	Log        []string     `json:"log,omitempty"`
	Errors     []string     `json:"errors,omitempty"`
	Plan       *Plan        `json:"plan,omitempty"`
	WallUS     int64        `json:"wall_us"`
}

// AggRecord sums the runs of an explore worker that had nothing to report individually
// (no violation, not a sample): one line every few hundred runs instead of one per run.
type AggRecord struct {
	Agg        bool           `json:"agg"`
	Runs       int            `json:"runs"`
	Steps      int64          `json:"steps"`
	VirtualNS  int64          `json:"virtual_ns"`
	VirtualMax int64          `json:"virtual_max"`
	States     int64          `json:"states"`
	WallUS     int64          `json:"wall_us"`
	Flavors    map[string]int `json:"flavors"`
	Worlds     map[string]int `json:"worlds"`
	Reasons    map[string]int `json:"reasons"`
	Faults     map[string]int `json:"faults"`
	Yields     map[string]int `json:"yields"`
	Parks      map[string]int `json:"parks"`
	Probes     map[string]int `json:"probes"`
	Ops        map[string]int `json:"ops"`
	LockSites  map[string]int `json:"lock_sites"`
	SigsNT     []string       `json:"sigs_nontrivial"` // canonical-log hashes of the non-trivial runs
	SigsT      []string       `json:"sigs_trivial"`
}

func newAgg() *AggRecord {
	return &AggRecord{Agg: true, Flavors: map[string]int{}, Worlds: map[string]int{}, Reasons: map[string]int{}, Faults: map[string]int{}, Yields: map[string]int{},
		Parks: map[string]int{}, Probes: map[string]int{}, Ops: map[string]int{}, LockSites: map[string]int{}}
}

func addMap(dst, src map[string]int) {
	for k, v := range src {
		dst[k] += v
	}
}

func (a *AggRecord) add(r *RunRecord) {
	a.Runs++
	a.Steps += int64(r.Steps)
	a.VirtualNS += r.VirtualNS
	if r.VirtualNS > a.VirtualMax {
		a.VirtualMax = r.VirtualNS
	}
	a.States += int64(r.States)
	a.WallUS += r.WallUS
	a.Flavors[r.Flavor]++
	a.Worlds[r.World]++
	a.Reasons[r.Reason]++
	addMap(a.Faults, r.Faults)
	addMap(a.Yields, r.Yields)
	addMap(a.Parks, r.Parks)
	addMap(a.Probes, r.Probes)
	addMap(a.Ops, r.Ops)
	for k := range r.LockSites {
		a.LockSites[k] = 1
	}
	if r.Steps >= 10 && r.Requests >= 3 {
		a.SigsNT = append(a.SigsNT, r.Sig)
	} else {
		a.SigsT = append(a.SigsT, r.Sig)
	}
}

func TestMain(m *testing.M) {
	flag.Parse()
	if *fMode == "" {
		os.Exit(0)
	}
	procs := 1
	if os.Getenv("VERIF_RACEMODE") == "1" {
		procs = 4
	}
	if v := os.Getenv("VERIF_PROCS"); v != "" {
		fmt.Sscanf(v, "%d", &procs)
	}
	runtime.GOMAXPROCS(procs)
	os.Exit(m.Run())
}

// watchdog runs outside every bubble on the real clock.
func watchdog(cur string) {
	last := Heartbeat.Load()
	idle := 0
	for {
		time.Sleep(time.Second)
		h := Heartbeat.Load()
		if h != last {
			last, idle = h, 0
			continue
		}
		idle++
		if idle >= 60 {
			buf := make([]byte, 1<<20)
			n := runtime.Stack(buf, true)
			fmt.Fprintf(os.Stderr, "WATCHDOG: no scheduler step for 60 s real time\n%s\n", buf[:n])
			os.Exit(4)
		}
	}
}

func executePlan(t *testing.T, p *Plan, keepLog bool) *RunRecord {
	rec := &RunRecord{Run: p.Run, Flavor: p.Flavor, World: worldTag(p)}
	start := time.Now()
	cryptotest.SetGlobalRandom(t, Mix(p.Seed, uint64(p.Run), 0xc4))
	turn.VerifResetRelayListeners() // process-wide state of the library: nothing of an earlier run stays
	if os.Getenv("VERIF_DEBUG_RAND") == "1" {
		var b [4]byte
		_, _ = crand.Read(b[:])
		fmt.Fprintf(os.Stderr, "RAND run=%d %x\n", p.Run, b)
	}
	func() {
		defer func() {
			if r := recover(); r != nil {
				s := fmt.Sprint(r)
				if strings.Contains(s, "deadlock") || strings.Contains(s, "blocked goroutines") {
					rec.Reason += "+bubble-residue"
					return
				}
				panic(r)
			}
		}()
		synctest.Test(t, func(t *testing.T) {
			runWorld(t, p, rec, keepLog)
		})
	}()
	rec.WallUS = time.Since(start).Microseconds()
	return rec
}

// worldTag names which components of a run are real code and which are scripted, for the
// evidence file: the world, plus what stands on the client and the server side of it.
func worldTag(p *Plan) string {
	tag := p.World
	if tag == "srv" {
		if p.Cfg.Nonce != "" {
			tag = "srv-handlers"
		}
		if p.Cfg.Listener == "tcp" || p.Cfg.Extra["tcp_peers"] == 1 {
			tag += "+tcp"
		}
		for _, c := range p.Clients {
			if c.Kind == "real" {
				tag += "+realclient"
				break
			}
		}
	}
	if os.Getenv("VERIF_RACEMODE") == "1" {
		tag += "+free"
	}
	return tag
}

func fillRecord(rec *RunRecord, k *Kernel, reason string) {
	rec.Reason = reason
	rec.Steps = k.Steps
	rec.VirtualNS = k.Now()
	rec.Sig = fmt.Sprintf("%016x", k.Signature())
	rec.Violations = k.Violations
	rec.Faults, rec.Yields, rec.Parks, rec.Probes, rec.Ops = k.Stats.Faults, k.Stats.Yields, k.Stats.Parks, k.Stats.Probes, k.Stats.OpsKind
	rec.Log = k.Log
}

func runWorld(t *testing.T, p *Plan, rec *RunRecord, keepLog bool) {
	k := NewKernel(p, keepLog)
	k.Strict = os.Getenv("VERIF_STRICT") != "0"
	if os.Getenv("VERIF_RACEMODE") == "1" {
		// free-running race pass: server-world plans (UDP and TCP listeners, TCP relay; raw or real clients) and client-world plans
		if p.World != "srv" && p.World != "cli" {
			rec.Reason = "skipped"
			return
		}
		k.Free, k.Strict = true, false
		k.Stats.Off = true
	}
	k.OnFatal = func(v *Violation) {
		// a busy loop cannot be unwound: report and leave the process
		fillRecord(rec, k, "spin")
		b, _ := json.Marshal(rec)
		fmt.Fprintf(os.Stderr, "FATAL-RECORD %s\n", b)
		if *fOut != "" {
			f, _ := os.OpenFile(*fOut, os.O_APPEND|os.O_CREATE|os.O_WRONLY, 0o644)
			f.Write(append(b, '\n'))
			f.Close()
		}
		os.Exit(3)
	}
	installHooks(k)
	defer uninstallHooks()
	switch p.World {
	case "srv":
		w := NewSrvWorld(k, p)
		reason := w.Run(maxStepsFor(p))
		if reason == "stopped" && !k.Free {
			w.postRun(rec) // end-of-run oracles need the complete teardown
		}
		fillRecord(rec, k, reason)
		rec.States = w.Mon.States()
		rec.Requests = w.Mon.Requests()
		if keepLog {
			rec.Errors = w.LF.Errors
		}
	default:
		if !runOtherWorld(t, k, p, rec, keepLog) {
			Fatalf("unknown world %q", p.World)
		}
	}
}

func maxStepsFor(p *Plan) int {
	return 400000 + 4000*len(p.Ops)
}

func TestWorker(t *testing.T) {
	switch *fMode {
	case "gen":
		for i := *fFrom; i == *fFrom || i < *fTo; i += *fStride {
			b, _ := json.Marshal(Generate(*fProp, *fTier, *fSeed, i))
			fmt.Println(string(b))
		}
	case "run":
		p, err := LoadPlan(*fPlan)
		if err != nil {
			Fatalf("load plan: %v", err)
		}
		go watchdog(*fCur)
		rec := executePlan(t, p, *fLog)
		b, _ := json.Marshal(rec)
		if *fOut != "" {
			os.WriteFile(*fOut, append(b, '\n'), 0o644)
		} else {
			fmt.Println(string(b))
		}
	case "explore":
		if os.Getenv("VERIF_RACEMODE") != "1" {
			go watchdog(*fCur) // the free-running mode has no scheduler steps to watch
		}
		if *fCur != "" {
			debug.SetCrashOutput(mustCreate(*fCur+".crash"), debug.CrashOptions{})
		}
		var out *bufio.Writer
		if *fOut != "" {
			f, err := os.Create(*fOut)
			if err != nil {
				Fatalf("create out: %v", err)
			}
			defer f.Close()
			out = bufio.NewWriter(f)
			defer out.Flush()
		}
		deadline := time.Time{}
		if *fBudget > 0 {
			deadline = time.Now().Add(*fBudget)
		}
		samples := 0
		emit := func(v any) {
			b, _ := json.Marshal(v)
			if out != nil {
				out.Write(append(b, '\n'))
				out.Flush()
			} else {
				fmt.Println(string(b))
			}
		}
		// the index of the plan in progress, rewritten in place (the plan itself is a pure
		// function of property, tier, seed and index): no file is created per run
		var curF *os.File
		if *fCur != "" {
			curF = mustCreate(*fCur)
		}
		agg := newAgg()
		perRun := os.Getenv("VERIF_PER_RUN") == "1"
		violSeen := map[string]int{}
		violRuns := 0
		for i := *fFrom; (*fTo == 0 || i < *fTo); i += *fStride {
			if !deadline.IsZero() && time.Now().After(deadline) {
				break
			}
			p := Generate(*fProp, *fTier, *fSeed, i)
			if curF != nil {
				curF.WriteAt([]byte(fmt.Sprintf("{\"run\":%12d}\n", i)), 0)
			}
			rec := executePlan(t, p, os.Getenv("VERIF_EXPLORE_LOG") == "1")
			if len(rec.Violations) > 0 && !perRun {
				// the plan travels with the first 40 runs of each violation class; later ones are
				// counted without it, and a worker that has seen 5000 violating runs stops: nothing
				// more is learnt, and the orchestrator reads all of this into memory
				fresh := false
				for _, v := range rec.Violations {
					kb, _ := json.Marshal(v.Key)
					sig := v.Property + "|" + v.Class + "|" + string(kb)
					if violSeen[sig] < 40 {
						fresh = true
					}
					violSeen[sig]++
				}
				violRuns++
				if !fresh {
					rec.Log = nil
					emit(rec)
					if violRuns >= 5000 {
						break
					}
					continue
				}
			}
			if len(rec.Violations) > 0 || samples < *fSamples || perRun {
				if len(rec.Violations) > 0 || samples < *fSamples {
					rec.Plan = p
				}
				if len(rec.Violations) == 0 {
					samples++
				}
				emit(rec)
				continue
			}
			agg.add(rec)
			if agg.Runs >= 500 {
				emit(agg)
				agg = newAgg()
			}
		}
		if agg.Runs > 0 {
			emit(agg)
		}
		if curF != nil {
			curF.Close()
			os.Remove(*fCur)
		}
	}
}

func mustCreate(p string) *os.File {
	f, err := os.Create(p)
	if err != nil {
		Fatalf("create %s: %v", p, err)
	}
	return f
}

func sortedKeys(m map[string]int) []string {
	var ks []string
	for k := range m {
		ks = append(ks, k)
	}
	sort.Strings(ks)
	return ks
}
