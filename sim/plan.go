package sim

import (
	"encoding/json"
	"os"
)

// Plan is one simulated run, fully determined before the bubble starts. It is also the
// replay-file format (Expect filled in).
type Plan struct {
	V        int    `json:"v"`
	Property string `json:"property"`
	Tier     string `json:"tier"`
	Seed     uint64 `json:"seed"`
	Run      int    `json:"run"`
	World    string `json:"world"`
	Flavor   string `json:"flavor,omitempty"` // generator family that produced it (evidence only)

	Cfg     Config       `json:"config"`
	Clients []ClientSpec `json:"clients,omitempty"`
	Peers   []PeerSpec   `json:"peers,omitempty"`

	Ops       []Op       `json:"ops"`
	NetFaults []NetFault `json:"net_faults,omitempty"`
	IOFaults  []IOFault  `json:"io_faults,omitempty"`
	Stalls    []Stall    `json:"stalls,omitempty"`
	Streams   []StreamCut `json:"stream,omitempty"`
	Reactions []Reaction  `json:"reactions,omitempty"` // scripted server behaviour (client-side worlds)

	QuietNS int64 `json:"quiet_ns,omitempty"` // virtual time to keep running after the last op

	Expect  *Violation `json:"expect,omitempty"`
	CodeRev string     `json:"code_rev,omitempty"`
}

type Config struct {
	Listener      string   `json:"listener"`    // udp|tcp
	ListenerIP    string   `json:"listener_ip"` // 10.0.0.1 | fd00::1
	Realm         string   `json:"realm"`
	AllocLifeS    int      `json:"alloc_lifetime_s"` // 0 = library default
	PermTimeoutS  int      `json:"perm_timeout_s"`
	ChanTimeoutS  int      `json:"chan_timeout_s"`
	InboundMTU    int      `json:"inbound_mtu"`
	StrictFamily  bool     `json:"strict_family,omitempty"`
	Nonce         string   `json:"nonce,omitempty"` // server | long | short:<n> (handler-level worlds)
	Auth          string   `json:"auth"`            // static | ltcred | turnrest | none
	Secret        string   `json:"secret,omitempty"`
	DenyPeerIPs   []string `json:"deny_peer_ips,omitempty"`
	DenyClients   []string `json:"deny_client_addrs,omitempty"`
	DenyQuota     []string `json:"deny_quota_users,omitempty"`
	RelayGen      string   `json:"relay_gen"` // sim | static | range:<min>-<max> | none
	RelayIP4      string   `json:"relay_ip4,omitempty"`
	RelayIP6      string   `json:"relay_ip6,omitempty"`
	Events        bool     `json:"events"`
	Users         []User   `json:"users,omitempty"`
	LatCSns       int64    `json:"lat_cs_ns"` // base one-way latency client<->server
	LatSPns       int64    `json:"lat_sp_ns"` // server<->peer
	RTOms         int      `json:"rto_ms,omitempty"`
	Extra         map[string]int64 `json:"extra,omitempty"`
}

type User struct {
	Name string `json:"name"`
	Pass string `json:"pass"`
}

type ClientSpec struct {
	ID    string `json:"id"`
	Addr  string `json:"addr"`
	User  string `json:"user"`
	Pass  string `json:"pass"`
	Phase int64  `json:"phase_ns"`
	Kind  string `json:"kind,omitempty"` // raw (default) | real
	L     int    `json:"listener,omitempty"` // index of the server listener this client talks to (cross-listener world)
}

type PeerSpec struct {
	ID   string `json:"id"`
	Addr string `json:"addr"`
}

// TimeSpec: when an op is issued. Exactly one form is used.
type TimeSpec struct {
	GapNS int64    `json:"gap_ns,omitempty"` // after the previous op was issued
	Ref   string   `json:"ref,omitempty"`    // alloc_deadline | perm_deadline | chan_deadline | bind_deadline | nonce_age
	Of    []string `json:"of,omitempty"`
	OffNS int64    `json:"off_ns,omitempty"` // arrival at the server at deadline+off
}

type Op struct {
	ID    int      `json:"id"`
	Actor string   `json:"actor"`
	Kind  string   `json:"kind"`
	At    TimeSpec `json:"at"`
	A     OpArgs   `json:"args,omitempty"`
}

type OpArgs struct {
	Peer     string   `json:"peer,omitempty"`  // ip:port
	Peers    []string `json:"peers,omitempty"` // CreatePermission with several addresses
	Chan     int      `json:"chan,omitempty"`
	Lifetime int64    `json:"lifetime,omitempty"` // seconds; -1 = attribute absent
	Cred     string   `json:"cred,omitempty"`     // ok|none|wrongkey|... (see rawclient)
	TID      string   `json:"tid,omitempty"`      // fresh | same_as:<op id>
	Len      int      `json:"len,omitempty"`
	Content  string   `json:"content,omitempty"` // rand|zero|stunlike|chanlike|stunvalid
	Target   string   `json:"target,omitempty"`  // e.g. relay of which client ("c1"), or address
	Family   string   `json:"family,omitempty"`  // "", 4, 6, bad
	Transport string  `json:"transport,omitempty"` // udp|tcp|other
	Flags    []string `json:"flags,omitempty"`   // evenport, token, dontfrag, ...
	Raw      string   `json:"raw,omitempty"`     // hex bytes for hostile input
	N        int      `json:"n,omitempty"`
	User     string   `json:"user,omitempty"`
	Cuts     []int    `json:"cuts,omitempty"`
	DurNS    int64    `json:"dur_ns,omitempty"`
	S        string   `json:"s,omitempty"`
}

type Match struct {
	Flow  string `json:"flow,omitempty"`  // "c1>srv", "srv>c1", "p1>relay:c1", "relay:c1>p1"
	What  string `json:"what,omitempty"`  // semantic message kind: allocate-req, refresh-ok, chandata, data-ind, payload, ...
	Nth   int    `json:"nth,omitempty"`   // n-th message of that (flow, what); 0 = every
	Sock  string `json:"sock,omitempty"`  // socket role: listener | relay:c1 | client:c1
	Op    string `json:"op,omitempty"`    // ReadFrom|WriteTo|Accept|Close|Listen|Dial|Read|Write
	Class string `json:"class,omitempty"` // yield class: cb:OnPermissionCreated | log:<fmt> | sock:<role>:<op> | lock:<field> | unlock:<field>
	Args  string `json:"args,omitempty"`  // "" or "*" = any
}

type NetFault struct {
	M   Match  `json:"match"`
	Do  string `json:"do"` // drop|dup|delay|corrupt|truncate|partition
	Arg int64  `json:"arg,omitempty"`
	// partition: every datagram of the flow sent in [AtNS, AtNS+Arg) is lost (then it heals)
	AtNS int64 `json:"at_ns,omitempty"`
}

type IOFault struct {
	M   Match  `json:"match"`
	Do  string `json:"do"` // error|short
	Arg string `json:"arg,omitempty"`
}

type Stall struct {
	M      Match `json:"match"`
	ParkNS int64 `json:"park_ns"`
	// AfterOp, when set, arms the stall only once the operation with that id has been
	// issued; Nth then counts matching yields from that moment, and the stall fires once.
	// This is how a plan parks the handling of one particular request (say across an expiry).
	AfterOp int `json:"after_op,omitempty"`
}

// Reaction tells the scripted TURN server how to treat a request.
type Reaction struct {
	Method  string `json:"method,omitempty"`  // binding|allocate|refresh|createperm|chanbind|connect ("" = any)
	Txn     int    `json:"txn,omitempty"`     // n-th distinct transaction of that method (0 = any)
	Attempt int    `json:"attempt,omitempty"` // k-th transmission of the transaction (0 = any)
	Do      string `json:"do"`                // ok | drop | err:<code> | wrongtid | dup | stale
	DelayNS int64  `json:"delay_ns,omitempty"`
}

type StreamCut struct {
	Conn  string `json:"conn"` // e.g. "c1>srv"
	Cuts  []int  `json:"cuts,omitempty"`       // sizes of arrival chunks, cycled
	Reads []int  `json:"read_sizes,omitempty"` // max bytes per Read, cycled
	// Coalesce: what is written on the connection at one instant leaves as one piece of stream
	// and is cut by Cuts regardless of write boundaries (segments may end inside the frame
	// that follows a whole one)
	Coalesce bool `json:"coalesce,omitempty"`
	// Window: receive window in bytes (0 = unlimited): a writer blocks while that many bytes are
	// outstanding, i.e. sent and not yet consumed by the other end's application
	Window int `json:"window,omitempty"`
}

// Violation is the record a failed oracle produces.
type Violation struct {
	Property string            `json:"property"`
	Class    string            `json:"class"`
	Key      map[string]string `json:"key,omitempty"`
	Step     int               `json:"step"`
	TNS      int64             `json:"t_ns"`
	Detail   string            `json:"detail,omitempty"`
}

func (v *Violation) Sig() string {
	b, _ := json.Marshal(struct {
		P string            `json:"p"`
		C string            `json:"c"`
		K map[string]string `json:"k"`
	}{v.Property, v.Class, v.Key})
	return string(b)
}

func LoadPlan(path string) (*Plan, error) {
	b, err := os.ReadFile(path)
	if err != nil {
		return nil, err
	}
	p := &Plan{}
	if err := json.Unmarshal(b, p); err != nil {
		return nil, err
	}
	return p, nil
}

func (p *Plan) JSON() []byte {
	b, _ := json.Marshal(p)
	return b
}
