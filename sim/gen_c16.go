package sim

import "fmt"

func init() { generators["C16"] = genC16 }

// genC16: RFC 6062 - Connect / inbound peer connections / ConnectionBind / byte streams.
func genC16(p *Plan, r *RNG) {
	baseSrvConfig(p, r)
	p.Flavor = "tcprelay"
	p.Cfg.Listener = "tcp"
	p.Cfg.Extra = map[string]int64{"tcp_peers": 1}
	p.Cfg.PermTimeoutS = r.PickInt([]int{0, 0, 40, 600})
	p.Cfg.AllocLifeS = r.PickInt([]int{0, 600, 3600})
	nc := r.Range(1, 3)
	np := r.Range(1, 3)
	for i := 0; i < nc; i++ {
		u := p.Cfg.Users[r.Intn(2)]
		p.Clients = append(p.Clients, ClientSpec{ID: fmt.Sprintf("c%d", i+1), Addr: fmt.Sprintf("10.0.1.%d:%d", 1+i, 4000+i*13), User: u.Name, Pass: u.Pass})
	}
	for i := 0; i < np; i++ {
		p.Peers = append(p.Peers, PeerSpec{ID: fmt.Sprintf("p%d", i+1), Addr: fmt.Sprintf("10.0.2.%d:%d", 1+i, 5000+i*17)})
	}
	if r.Chance(1, 4) && np > 1 {
		p.Cfg.DenyPeerIPs = []string{mustUDPAddr(p.Peers[np-1].Addr).IP.String()}
	}
	if r.Chance(1, 3) {
		cuts, reads := genCuts(r)
		p.Streams = []StreamCut{{Conn: "*", Cuts: cuts, Reads: reads}}
	}
	for i := 0; i < nc; i++ {
		p.Ops = append(p.Ops, Op{Actor: p.Clients[i].ID, Kind: "allocate", At: gap(int64(r.Range(1, 300)) * ms), A: OpArgs{Lifetime: -1, Transport: "tcp"}})
	}
	nconn := map[string]int{}  // connection ids a client will have learnt (upper bound)
	ndata := map[string]int{}  // data connections opened
	npeerc := map[string]int{} // peer-side connections (upper bound)
	n := r.Range(4, 22)
	for i := 0; i < n; i++ {
		c := p.Clients[r.Intn(nc)].ID
		pi := r.Intn(np)
		pid, peer := p.Peers[pi].ID, p.Peers[pi].Addr
		g := gap(int64(r.Range(20, 1500)) * ms)
		if r.Chance(1, 10) {
			g = gap(int64(r.PickInt([]int{25, 29, 31, 40})) * sec)
		}
		switch w := r.Intn(100); {
		case w < 18:
			o := Op{Actor: c, Kind: "connect", At: g, A: OpArgs{Peer: peer}}
			if r.Chance(1, 8) {
				o.A.Peer = "10.0.2.77:9" // nobody listens: refused
			}
			p.Ops = append(p.Ops, o)
			nconn[c]++
			npeerc[pid]++
		case w < 28:
			p.Ops = append(p.Ops, Op{Actor: c, Kind: "createperm", At: g, A: OpArgs{Peer: peer}})
		case w < 38:
			p.Ops = append(p.Ops, Op{Actor: pid, Kind: "peer_connect", At: g, A: OpArgs{Target: c, N: 0}})
			nconn[c]++
			npeerc[pid]++
		case w < 60:
			// bind: right id (mostly), at an interesting offset after it was made
			a := OpArgs{N: r.Intn(nconn[c] + 1)}
			if r.Chance(1, 8) {
				a.N = -1 // bogus id
			}
			if r.Chance(1, 8) && nc > 1 {
				a.Target = p.Clients[r.Intn(nc)].ID // somebody else's id
			}
			if r.Chance(1, 8) {
				a.Cred = r.Pick([]string{"wrongkey", "none", "nomi"})
			}
			if r.Chance(1, 8) {
				a.User = "u3"
			}
			if r.Chance(1, 4) {
				g = gap(r.PickI64([]int64{29 * sec, 29*sec + 900*ms, 30*sec + 100*ms, 31 * sec}))
			}
			p.Ops = append(p.Ops, Op{Actor: c, Kind: "connbind", At: g, A: a})
			ndata[c]++
		case w < 75:
			if ndata[c] > 0 {
				p.Ops = append(p.Ops, Op{Actor: c, Kind: "data_send", At: g, A: OpArgs{N: r.Intn(ndata[c]), Len: r.PickInt([]int{1, 10, 100, 1000, 5000, 40000})}})
			}
		case w < 90:
			if npeerc[pid] > 0 {
				p.Ops = append(p.Ops, Op{Actor: pid, Kind: "peer_data", At: g, A: OpArgs{N: r.Intn(npeerc[pid]), Len: r.PickInt([]int{1, 10, 100, 1000, 5000, 40000})}})
			}
		case w < 94:
			if ndata[c] > 0 {
				o := Op{Actor: c, Kind: "data_close", At: g, A: OpArgs{N: r.Intn(ndata[c])}}
				if r.Chance(1, 3) {
					o.A.Flags = []string{"rst"}
				}
				p.Ops = append(p.Ops, o)
			}
		case w < 97:
			if npeerc[pid] > 0 {
				p.Ops = append(p.Ops, Op{Actor: pid, Kind: "peer_close", At: g, A: OpArgs{N: r.Intn(npeerc[pid])}})
			}
		default:
			p.Ops = append(p.Ops, Op{Actor: c, Kind: "binding", At: g})
		}
	}
	// liveness probe on every control connection at the end
	for i := 0; i < nc; i++ {
		p.Ops = append(p.Ops, Op{Actor: p.Clients[i].ID, Kind: "binding", At: gap(500 * ms)})
	}
	p.QuietNS = 40 * sec
	if r.Chance(1, 4) {
		addFaults(p, r, 1)
	}
}
