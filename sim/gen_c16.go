package sim

import "fmt"

func init() { generators["C16"] = genC16 }

// genC16: RFC 6062 - Connect / inbound peer connections / ConnectionBind / byte streams.
func genC16(p *Plan, r *RNG) {
	if r.Chance(1, 5) {
		genC16Race(p, r)
		return
	}
	if r.Chance(1, 12) {
		genC16OnControl(p, r)
		return
	}
	if r.Chance(1, 8) {
		genC16SlowControl(p, r)
		return
	}
	if r.Chance(1, 10) {
		genC16LastBytes(p, r)
		return
	}
	if r.Chance(1, 12) {
		genC16TwoAccepts(p, r)
		return
	}
	if r.Chance(1, 6) {
		genC16Real(p, r)
		return
	}
	baseSrvConfig(p, r)
	p.Flavor = "tcprelay"
	p.Cfg.Listener = "tcp"
	p.Cfg.Extra = map[string]int64{"tcp_peers": 1}
	p.Cfg.PermTimeoutS = r.PickInt([]int{0, 0, 40, 600})
	p.Cfg.AllocLifeS = r.PickInt([]int{0, 600, 3600})
	nc := r.Range(1, 3)
	np := r.Range(1, 3)
	for i := 0; i < nc; i++ {
		u := p.Cfg.Users[r.Intn(2)]
		p.Clients = append(p.Clients, ClientSpec{ID: fmt.Sprintf("c%d", i+1), Addr: fmt.Sprintf("10.0.1.%d:%d", 1+i, 4000+i*13), User: u.Name, Pass: u.Pass})
	}
	for i := 0; i < np; i++ {
		p.Peers = append(p.Peers, PeerSpec{ID: fmt.Sprintf("p%d", i+1), Addr: fmt.Sprintf("10.0.2.%d:%d", 1+i, 5000+i*17)})
	}
	if r.Chance(1, 4) && np > 1 {
		p.Cfg.DenyPeerIPs = []string{mustUDPAddr(p.Peers[np-1].Addr).IP.String()}
	}
	if r.Chance(1, 3) {
		cuts, reads := genCuts(r)
		p.Streams = []StreamCut{{Conn: "*", Cuts: cuts, Reads: reads, Coalesce: r.Chance(1, 2)}}
	}
	if r.Chance(1, 3) {
		eofWithData(p)
	}
	if r.Chance(1, 6) {
		// a bundled generator: listeners bound with SO_REUSEPORT, outgoing connections from the relayed address
		p.Cfg.Extra["real_gen"] = int64(r.PickInt([]int{1, 1, 3, 8}))
		p.Flavor += "+bundled-gen"
	}
	for i := 0; i < nc; i++ {
		p.Ops = append(p.Ops, Op{Actor: p.Clients[i].ID, Kind: "allocate", At: gap(int64(r.Range(1, 300)) * ms), A: OpArgs{Lifetime: -1, Transport: "tcp"}})
	}
	nconn := map[string]int{}  // connection ids a client will have learnt (upper bound)
	ndata := map[string]int{}  // data connections opened
	npeerc := map[string]int{} // peer-side connections (upper bound)
	n := r.Range(4, 22)
	for i := 0; i < n; i++ {
		c := p.Clients[r.Intn(nc)].ID
		pi := r.Intn(np)
		pid, peer := p.Peers[pi].ID, p.Peers[pi].Addr
		g := gap(int64(r.Range(20, 1500)) * ms)
		if r.Chance(1, 10) {
			g = gap(int64(r.PickInt([]int{25, 29, 31, 40})) * sec)
		}
		switch w := r.Intn(100); {
		case w < 18:
			o := Op{Actor: c, Kind: "connect", At: g, A: OpArgs{Peer: peer}}
			if r.Chance(1, 8) {
				o.A.Peer = "10.0.2.77:9" // nobody listens: refused
			}
			p.Ops = append(p.Ops, o)
			nconn[c]++
			npeerc[pid]++
		case w < 28:
			p.Ops = append(p.Ops, Op{Actor: c, Kind: "createperm", At: g, A: OpArgs{Peer: peer}})
		case w < 38:
			p.Ops = append(p.Ops, Op{Actor: pid, Kind: "peer_connect", At: g, A: OpArgs{Target: c, N: 0}})
			nconn[c]++
			npeerc[pid]++
		case w < 60:
			// bind: right id (mostly), at an interesting offset after it was made
			a := OpArgs{N: r.Intn(nconn[c] + 1)}
			if r.Chance(1, 8) {
				a.N = -1 // bogus id
			}
			if r.Chance(1, 8) && nc > 1 {
				a.Target = p.Clients[r.Intn(nc)].ID // somebody else's id
			}
			if r.Chance(1, 8) {
				a.Cred = r.Pick([]string{"wrongkey", "none", "nomi"})
			}
			if r.Chance(1, 8) {
				a.User = "u3"
			}
			if r.Chance(1, 4) {
				g = gap(r.PickI64([]int64{29 * sec, 29*sec + 900*ms, 30*sec + 100*ms, 31 * sec}))
			}
			p.Ops = append(p.Ops, Op{Actor: c, Kind: "connbind", At: g, A: a})
			ndata[c]++
		case w < 75:
			if ndata[c] > 0 {
				p.Ops = append(p.Ops, Op{Actor: c, Kind: "data_send", At: g, A: OpArgs{N: r.Intn(ndata[c]), Len: r.PickInt([]int{1, 10, 100, 1000, 5000, 40000})}})
			}
		case w < 90:
			if npeerc[pid] > 0 {
				p.Ops = append(p.Ops, Op{Actor: pid, Kind: "peer_data", At: g, A: OpArgs{N: r.Intn(npeerc[pid]), Len: r.PickInt([]int{1, 10, 100, 1000, 5000, 40000})}})
			}
		case w < 94:
			if ndata[c] > 0 {
				o := Op{Actor: c, Kind: "data_close", At: g, A: OpArgs{N: r.Intn(ndata[c])}}
				if r.Chance(1, 3) {
					o.A.Flags = []string{"rst"}
				} else if r.Chance(1, 2) {
					// the last bytes and the close at one instant: the FIN travels with the data
					p.Ops = append(p.Ops, Op{Actor: c, Kind: "data_send", At: g, A: OpArgs{N: o.A.N, Len: r.PickInt([]int{1, 10, 240, 1000, 5000})}})
					o.At = gap(0)
				}
				p.Ops = append(p.Ops, o)
			}
		case w < 97:
			if npeerc[pid] > 0 {
				o := Op{Actor: pid, Kind: "peer_close", At: g, A: OpArgs{N: r.Intn(npeerc[pid])}}
				if r.Chance(1, 2) {
					p.Ops = append(p.Ops, Op{Actor: pid, Kind: "peer_data", At: g, A: OpArgs{N: o.A.N, Len: r.PickInt([]int{1, 10, 240, 1000, 5000})}})
					o.At = gap(0)
				}
				p.Ops = append(p.Ops, o)
			}
		default:
			switch r.Intn(3) {
			case 0:
				// the allocation ends while pipes may be up: everything it owned goes with it
				p.Ops = append(p.Ops, Op{Actor: c, Kind: "refresh", At: g, A: OpArgs{Lifetime: 0}})
			case 1:
				p.Ops = append(p.Ops, Op{Actor: c, Kind: "allocate", At: g, A: OpArgs{Lifetime: -1, Transport: "tcp"}})
			default:
				p.Ops = append(p.Ops, Op{Actor: c, Kind: "binding", At: g})
			}
		}
	}
	if r.Chance(1, 4) {
		// peers named in the IPv4-mapped IPv6 notation in some requests: the same peers
		for i := range p.Ops {
			if k := p.Ops[i].Kind; (k == "connect" || k == "createperm") && r.Chance(1, 2) {
				p.Ops[i].A.Flags = append(p.Ops[i].A.Flags, "mapped")
			}
		}
		p.Flavor += "+mapped"
	}
	// liveness probe on every control connection at the end
	for i := 0; i < nc; i++ {
		p.Ops = append(p.Ops, Op{Actor: p.Clients[i].ID, Kind: "binding", At: gap(500 * ms)})
	}
	p.QuietNS = 40 * sec
	if r.Chance(1, 4) {
		addFaults(p, r, 1)
	}
	if r.Chance(1, 6) {
		// a write on a client connection fails (a response on the control connection, the
		// ConnectionBind answer on a data connection, or bytes of a pipe)
		p.IOFaults = append(p.IOFaults, IOFault{M: Match{Sock: "listener-conn", Op: "Write", Nth: r.Range(1, 12)}, Do: "error"})
		p.Flavor += "+write-error"
	}
}

// genC16Race: ConnectionBind racing the 30-second bind timer. Either the bind request is
// issued shortly before the deadline and its handling is parked across it, or the timer
// callback itself is parked (it logs before it removes the connection) and the bind arrives
// meanwhile. Bytes in both directions afterwards show whether a bound pipe survived.
func genC16Race(p *Plan, r *RNG) {
	baseSrvConfig(p, r)
	p.Flavor = "tcprelay-race-bind"
	p.Cfg.Listener = "tcp"
	p.Cfg.Extra = map[string]int64{"tcp_peers": 1}
	p.Cfg.PermTimeoutS = r.PickInt([]int{0, 600})
	p.Cfg.AllocLifeS = r.PickInt([]int{0, 600})
	p.Clients = []ClientSpec{{ID: "c1", Addr: "10.0.1.1:4000", User: "u1", Pass: "pw-one"}}
	p.Peers = []PeerSpec{{ID: "p1", Addr: "10.0.2.1:5000"}}
	c, pid, peer := "c1", "p1", p.Peers[0].Addr
	add := func(o Op) int {
		p.Ops = append(p.Ops, o)
		return len(p.Ops)
	}
	add(Op{Actor: c, Kind: "allocate", At: gap(int64(r.Range(1, 200)) * ms), A: OpArgs{Lifetime: -1, Transport: "tcp"}})
	if r.Chance(1, 2) {
		add(Op{Actor: c, Kind: "connect", At: gap(int64(r.Range(50, 500)) * ms), A: OpArgs{Peer: peer}})
	} else {
		add(Op{Actor: c, Kind: "createperm", At: gap(int64(r.Range(50, 300)) * ms), A: OpArgs{Peer: peer}})
		add(Op{Actor: pid, Kind: "peer_connect", At: gap(int64(r.Range(50, 500)) * ms), A: OpArgs{Target: c, N: 0}})
	}
	// a time reference is resolved when the previous operation has been issued: give the
	// connection time to exist before the next one refers to its deadline
	add(Op{Actor: "", Kind: "wait", At: gap(int64(r.Range(800, 3000)) * ms)})
	at := func(off int64) TimeSpec { return ref("tcp_deadline", off, c, "0") }
	if r.Chance(1, 2) {
		// the timer callback parked between its check and the removal
		x := add(Op{Actor: "", Kind: "wait", At: at(-r.PickI64([]int64{ms, 5 * ms, 200 * ms}))})
		park := r.PickI64([]int64{500 * ms, 2 * sec, 5 * sec})
		cls := r.Pick([]string{"log:*", "log:*", "lock", "sock:relay-out:Close", "sock:relay-conn:Close"})
		p.Stalls = append(p.Stalls, Stall{M: Match{Class: cls, Args: "*", Nth: 1}, ParkNS: park, AfterOp: x})
		add(Op{Actor: c, Kind: "connbind", At: gap(r.PickI64([]int64{ms, 100 * ms, 300 * ms, park / 2})), A: OpArgs{N: 0}})
		add(Op{Actor: "", Kind: "wait", At: gap(park)})
	} else {
		delta := r.PickI64([]int64{ms, 50 * ms, 150 * ms, 400 * ms, sec})
		x := add(Op{Actor: c, Kind: "connbind", At: at(-delta), A: OpArgs{N: 0}})
		park := delta + r.PickI64([]int64{ms, 100 * ms, sec, 3 * sec})
		cls := r.Pick([]string{"cb:Auth", "cb:OnAuth", "lock", "unlock", "log:*", "sock:listener-conn:Write", "sock:listener-conn:Read"})
		nth := 1
		if cls == "lock" || cls == "unlock" || cls == "log:*" || cls == "sock:listener-conn:Read" {
			nth = r.Range(1, 5)
		}
		p.Stalls = append(p.Stalls, Stall{M: Match{Class: cls, Args: "*", Nth: nth}, ParkNS: park, AfterOp: x})
		add(Op{Actor: "", Kind: "wait", At: gap(park + 100*ms)})
	}
	for i := r.Range(1, 4); i > 0; i-- {
		if r.Chance(1, 2) {
			add(Op{Actor: c, Kind: "data_send", At: gap(int64(r.Range(50, 800)) * ms), A: OpArgs{N: 0, Len: r.PickInt([]int{1, 100, 5000})}})
		} else {
			add(Op{Actor: pid, Kind: "peer_data", At: gap(int64(r.Range(50, 800)) * ms), A: OpArgs{N: 0, Len: r.PickInt([]int{1, 100, 5000})}})
		}
	}
	if r.Chance(1, 3) {
		add(Op{Actor: c, Kind: "connbind", At: gap(int64(r.Range(50, 800)) * ms), A: OpArgs{N: 0}}) // a second bind of the same id
	}
	add(Op{Actor: c, Kind: "binding", At: gap(500 * ms)})
	p.QuietNS = 40 * sec
}

// genC16OnControl: ConnectionBind sent on the control transport (UDP or the TCP control
// connection) instead of a fresh data connection. It cannot be honoured and is refused; the
// peer connection stays what it was - bindable by a proper request, and closed after 30 s if
// none comes.
func genC16OnControl(p *Plan, r *RNG) {
	baseSrvConfig(p, r)
	p.Flavor = "tcprelay-bind-on-control"
	if r.Chance(1, 2) {
		p.Cfg.Listener = "tcp"
		p.Flavor += "-tcp"
	}
	p.Cfg.Extra = map[string]int64{"tcp_peers": 1}
	p.Cfg.AllocLifeS = 600
	p.Clients = []ClientSpec{{ID: "c1", Addr: "10.0.1.1:4000", User: "u1", Pass: "pw-one"}}
	p.Peers = []PeerSpec{{ID: "p1", Addr: "10.0.2.1:5000"}}
	p.Ops = append(p.Ops, Op{Actor: "c1", Kind: "allocate", At: gap(100 * ms), A: OpArgs{Lifetime: -1, Transport: "tcp"}})
	p.Ops = append(p.Ops, Op{Actor: "c1", Kind: "connect", At: gap(300 * ms), A: OpArgs{Peer: "10.0.2.1:5000"}})
	p.Ops = append(p.Ops, Op{Actor: "c1", Kind: "connbind", At: gap(int64(r.Range(200, 3000)) * ms), A: OpArgs{N: 0, Flags: []string{"oncontrol"}}})
	if p.Cfg.Listener == "tcp" && r.Chance(1, 2) {
		p.Ops = append(p.Ops, Op{Actor: "c1", Kind: "connbind", At: gap(int64(r.Range(200, 3000)) * ms), A: OpArgs{N: 0}}) // the proper one
		p.Ops = append(p.Ops, Op{Actor: "c1", Kind: "data_send", At: gap(500 * ms), A: OpArgs{N: 0, Len: 100}})
	}
	p.Ops = append(p.Ops, Op{Actor: "", Kind: "wait", At: gap(40 * sec)})
	p.Ops = append(p.Ops, Op{Actor: "c1", Kind: "binding", At: gap(500 * ms)})
	p.QuietNS = 10 * sec
}

// genC16SlowControl: a client with a TCP allocation stops reading its control connection while
// peers keep connecting to its relayed address. The ConnectionAttempt indications fill that
// connection's window and the writer blocks - which is that client's business only: another
// client of the same listener goes on being served (Allocate, Connect, ConnectionBind, bytes).
func genC16SlowControl(p *Plan, r *RNG) {
	baseSrvConfig(p, r)
	p.Flavor = "tcprelay-slow-control"
	p.Cfg.Listener = "tcp"
	p.Cfg.Extra = map[string]int64{"tcp_peers": 1}
	p.Cfg.PermTimeoutS = r.PickInt([]int{0, 600})
	p.Cfg.AllocLifeS = r.PickInt([]int{0, 600})
	p.Clients = []ClientSpec{{ID: "c1", Addr: "10.0.1.1:4000", User: "u1", Pass: "pw-one"}, {ID: "c2", Addr: "10.0.1.2:4013", User: "u2", Pass: "pw-two"}}
	p.Peers = []PeerSpec{{ID: "p1", Addr: "10.0.2.1:5000"}, {ID: "p2", Addr: "10.0.2.2:5017"}}
	p.Streams = []StreamCut{{Conn: "srv>*", Window: r.PickInt([]int{48, 100, 300, 1024})}}
	add := func(o Op) { p.Ops = append(p.Ops, o) }
	add(Op{Actor: "c1", Kind: "allocate", At: gap(int64(r.Range(1, 200)) * ms), A: OpArgs{Lifetime: -1, Transport: "tcp"}})
	add(Op{Actor: "c1", Kind: "createperm", At: gap(int64(r.Range(50, 300)) * ms), A: OpArgs{Peer: p.Peers[0].Addr}})
	early := r.Chance(1, 2)
	if early {
		add(Op{Actor: "c2", Kind: "allocate", At: gap(int64(r.Range(50, 300)) * ms), A: OpArgs{Lifetime: -1, Transport: "tcp"}})
	}
	add(Op{Actor: "c1", Kind: "tcp_pause", At: gap(int64(r.Range(100, 400)) * ms)})
	for k := r.Range(2, 30); k > 0; k-- {
		add(Op{Actor: "p1", Kind: "peer_connect", At: gap(int64(r.Range(1, 200)) * ms), A: OpArgs{Target: "c1", N: 0}})
	}
	// the other client's whole life while the first one's control connection is shut
	if !early {
		add(Op{Actor: "c2", Kind: "allocate", At: gap(int64(r.Range(50, 300)) * ms), A: OpArgs{Lifetime: -1, Transport: "tcp"}})
	}
	add(Op{Actor: "c2", Kind: "connect", At: gap(int64(r.Range(100, 500)) * ms), A: OpArgs{Peer: p.Peers[1].Addr}})
	add(Op{Actor: "c2", Kind: "connbind", At: gap(int64(r.Range(100, 500)) * ms), A: OpArgs{N: 0}})
	for i := r.Range(1, 4); i > 0; i-- {
		if r.Chance(1, 2) {
			add(Op{Actor: "c2", Kind: "data_send", At: gap(int64(r.Range(50, 500)) * ms), A: OpArgs{N: 0, Len: r.PickInt([]int{1, 100, 5000})}})
		} else {
			add(Op{Actor: "p2", Kind: "peer_data", At: gap(int64(r.Range(50, 500)) * ms), A: OpArgs{N: 0, Len: r.PickInt([]int{1, 100, 5000})}})
		}
	}
	add(Op{Actor: "c2", Kind: "binding", At: gap(300 * ms)})
	add(Op{Actor: "c1", Kind: "tcp_resume", At: gap(r.PickI64([]int64{300 * ms, 6 * sec, 35 * sec}))})
	if r.Chance(1, 2) {
		// the first client picks up one of the connections it was told about, if still in time
		add(Op{Actor: "c1", Kind: "connbind", At: gap(int64(r.Range(100, 500)) * ms), A: OpArgs{N: 0}})
		add(Op{Actor: "p1", Kind: "peer_data", At: gap(int64(r.Range(50, 500)) * ms), A: OpArgs{N: 0, Len: 100}})
	}
	add(Op{Actor: "c1", Kind: "binding", At: gap(500 * ms)})
	add(Op{Actor: "c2", Kind: "binding", At: gap(200 * ms)})
	p.QuietNS = 40 * sec
}

// genC16TwoAccepts: two clients with TCP allocations on one listener, each with a peer of its
// own. The announcement of the first client's inbound connection is held up in the write to
// its control connection while the second client's peer connects: each client is told about
// its own connection, with its own peer and connection id, and can bind it.
func genC16TwoAccepts(p *Plan, r *RNG) {
	baseSrvConfig(p, r)
	p.Flavor = "tcprelay-two-accepts"
	p.Cfg.Listener = "tcp"
	p.Cfg.Extra = map[string]int64{"tcp_peers": 1}
	p.Clients = []ClientSpec{{ID: "c1", Addr: "10.0.1.1:4000", User: "u1", Pass: "pw-one"}, {ID: "c2", Addr: "10.0.1.2:4013", User: "u2", Pass: "pw-two"}}
	p.Peers = []PeerSpec{{ID: "p1", Addr: "10.0.2.1:5000"}, {ID: "p2", Addr: "10.0.2.2:5017"}}
	add := func(o Op) int {
		p.Ops = append(p.Ops, o)
		return len(p.Ops)
	}
	add(Op{Actor: "c1", Kind: "allocate", At: gap(int64(r.Range(1, 200)) * ms), A: OpArgs{Lifetime: -1, Transport: "tcp"}})
	add(Op{Actor: "c2", Kind: "allocate", At: gap(int64(r.Range(1, 200)) * ms), A: OpArgs{Lifetime: -1, Transport: "tcp"}})
	add(Op{Actor: "c1", Kind: "createperm", At: gap(200 * ms), A: OpArgs{Peer: p.Peers[0].Addr}})
	add(Op{Actor: "c2", Kind: "createperm", At: gap(100 * ms), A: OpArgs{Peer: p.Peers[1].Addr}})
	x := add(Op{Actor: "p1", Kind: "peer_connect", At: gap(int64(r.Range(200, 600)) * ms), A: OpArgs{Target: "c1", N: 0}})
	park := r.PickI64([]int64{300 * ms, sec, 3 * sec})
	p.Stalls = append(p.Stalls, Stall{M: Match{Class: "sock:listener-conn:Write", Args: "*", Nth: 1}, ParkNS: park, AfterOp: x})
	add(Op{Actor: "p2", Kind: "peer_connect", At: gap(r.PickI64([]int64{park / 3, park / 2, park - 10*ms})), A: OpArgs{Target: "c2", N: 0}})
	if r.Chance(1, 2) {
		add(Op{Actor: "p2", Kind: "peer_connect", At: gap(10 * ms), A: OpArgs{Target: "c2", N: 0}})
	}
	add(Op{Actor: "c2", Kind: "connbind", At: gap(park + int64(r.Range(100, 500))*ms), A: OpArgs{N: 0}})
	add(Op{Actor: "c1", Kind: "connbind", At: gap(int64(r.Range(100, 500)) * ms), A: OpArgs{N: 0}})
	add(Op{Actor: "p1", Kind: "peer_data", At: gap(200 * ms), A: OpArgs{N: 0, Len: 100}})
	add(Op{Actor: "p2", Kind: "peer_data", At: gap(100 * ms), A: OpArgs{N: 0, Len: 100}})
	add(Op{Actor: "c1", Kind: "binding", At: gap(500 * ms)})
	add(Op{Actor: "c2", Kind: "binding", At: gap(100 * ms)})
	p.QuietNS = 40 * sec
}

// genC16LastBytes: bound pipes (one made with Connect, one with an inbound connection) whose
// ends write their last bytes and close at one instant, over connections whose Read hands out
// the last bytes together with io.EOF: what was written before the close arrives before it.
func genC16LastBytes(p *Plan, r *RNG) {
	baseSrvConfig(p, r)
	p.Flavor = "tcprelay-last-bytes"
	p.Cfg.Listener = "tcp"
	p.Cfg.Extra = map[string]int64{"tcp_peers": 1}
	p.Clients = []ClientSpec{{ID: "c1", Addr: "10.0.1.1:4000", User: "u1", Pass: "pw-one"}}
	p.Peers = []PeerSpec{{ID: "p1", Addr: "10.0.2.1:5000"}, {ID: "p2", Addr: "10.0.2.2:5017"}}
	if r.Chance(3, 4) {
		eofWithData(p)
	}
	if r.Chance(1, 3) {
		cuts, reads := genCuts(r)
		p.Streams = []StreamCut{{Conn: "*", Cuts: cuts, Reads: reads, Coalesce: r.Chance(1, 2)}}
	}
	add := func(o Op) { p.Ops = append(p.Ops, o) }
	lens := []int{1, 10, 240, 1000, 5000}
	add(Op{Actor: "c1", Kind: "allocate", At: gap(int64(r.Range(1, 200)) * ms), A: OpArgs{Lifetime: -1, Transport: "tcp"}})
	add(Op{Actor: "c1", Kind: "createperm", At: gap(int64(r.Range(50, 300)) * ms), A: OpArgs{Peers: []string{p.Peers[0].Addr, p.Peers[1].Addr}}})
	add(Op{Actor: "c1", Kind: "connect", At: gap(int64(r.Range(100, 500)) * ms), A: OpArgs{Peer: p.Peers[0].Addr}})
	add(Op{Actor: "c1", Kind: "connbind", At: gap(int64(r.Range(200, 500)) * ms), A: OpArgs{N: 0}})
	add(Op{Actor: "p2", Kind: "peer_connect", At: gap(int64(r.Range(100, 300)) * ms), A: OpArgs{Target: "c1", N: 0}})
	add(Op{Actor: "c1", Kind: "connbind", At: gap(int64(r.Range(200, 500)) * ms), A: OpArgs{N: 1}})
	for conn := 0; conn < 2; conn++ {
		pid := p.Peers[conn].ID
		for k := r.Range(0, 3); k > 0; k-- {
			if r.Chance(1, 2) {
				add(Op{Actor: "c1", Kind: "data_send", At: gap(int64(r.Range(50, 500)) * ms), A: OpArgs{N: conn, Len: r.PickInt(lens)}})
			} else {
				add(Op{Actor: pid, Kind: "peer_data", At: gap(int64(r.Range(50, 500)) * ms), A: OpArgs{N: 0, Len: r.PickInt(lens)}})
			}
		}
		g := gap(int64(r.Range(50, 500)) * ms)
		if r.Chance(1, 2) {
			add(Op{Actor: "c1", Kind: "data_send", At: g, A: OpArgs{N: conn, Len: r.PickInt(lens)}})
			add(Op{Actor: "c1", Kind: "data_close", At: gap(0), A: OpArgs{N: conn}})
		} else {
			add(Op{Actor: pid, Kind: "peer_data", At: g, A: OpArgs{N: 0, Len: r.PickInt(lens)}})
			add(Op{Actor: pid, Kind: "peer_close", At: gap(0), A: OpArgs{N: 0}})
		}
	}
	add(Op{Actor: "c1", Kind: "binding", At: gap(500 * ms)})
	p.QuietNS = 40 * sec
}

// genC16Real: the real client's TCPAllocation (Dial / Accept, data connections opened and bound
// by the library itself) against the real server, with scripted TCP peers. Operations flagged
// "expect" are those the plan keeps inside the conditions under which they have to succeed:
// a Dial to a listening peer not dialled before, an Accept within 20 s of the one connection
// a permitted peer made for it.
func genC16Real(p *Plan, r *RNG) { genRealTCP(p, r, false) }

// genRealTCP: long = the C14 variant, hours of protocol time between the application's calls.
func genRealTCP(p *Plan, r *RNG, long bool) {
	baseSrvConfig(p, r)
	p.Flavor = "e2e-tcprelay"
	if long {
		p.Flavor = "e2e-tcprelay-long"
	}
	p.Cfg.Listener = "tcp"
	p.Cfg.Extra = map[string]int64{"tcp_peers": 1}
	p.Cfg.LatCSns = int64(r.Range(1, 80))*ms + int64(r.Intn(1000))*7 + 3
	p.Cfg.LatSPns = int64(r.Range(1, 40))*ms + int64(r.Intn(1000))*11 + 5
	p.Cfg.PermTimeoutS = r.PickInt([]int{0, 0, 600})
	p.Cfg.AllocLifeS = r.PickInt([]int{0, 600, 3600})
	p.Cfg.RTOms = r.PickInt([]int{0, 100, 200})
	p.Clients = []ClientSpec{{ID: "c1", Addr: "10.0.1.1:4000", User: "u1", Pass: "pw-one", Kind: "real"}}
	np := r.Range(2, 4)
	for i := 0; i < np; i++ {
		p.Peers = append(p.Peers, PeerSpec{ID: fmt.Sprintf("p%d", i+1), Addr: fmt.Sprintf("10.0.2.%d:%d", 1+i, 5000+i*17)})
	}
	if r.Chance(1, 3) {
		cuts, reads := genCuts(r)
		p.Streams = []StreamCut{{Conn: "*", Cuts: cuts, Reads: reads, Coalesce: r.Chance(1, 2)}}
	}
	add := func(o Op) { p.Ops = append(p.Ops, o) }
	add(Op{Actor: "c1", Kind: "alloc_tcp", At: gap(sec)})
	add(Op{Actor: "", Kind: "wait", At: gap(1500 * ms)}) // the allocation exists before the application uses it
	nconn := 0                 // connections the application has asked for (slots)
	npeerc := map[string]int{} // peer-side connections (upper bound)
	dialled := map[int]bool{}
	permitted := map[int]bool{}     // a permission for the peer's IP certainly exists
	everPermitted := map[int]bool{} // one was asked for at some time (it may or may not have lapsed)
	acceptClean := true
	lens := []int{1, 10, 100, 1000, 5000, 40000}
	data := func(k int) {
		for ; k > 0; k-- {
			g := gap(int64(r.Range(20, 1200)) * ms)
			if r.Chance(1, 2) && nconn > 0 {
				add(Op{Actor: "c1", Kind: "conn_write", At: g, A: OpArgs{N: r.Intn(nconn), Len: r.PickInt(lens)}})
			} else {
				pi := r.Intn(np)
				if n := npeerc[p.Peers[pi].ID]; n > 0 {
					add(Op{Actor: p.Peers[pi].ID, Kind: "peer_data", At: g, A: OpArgs{N: r.Intn(n), Len: r.PickInt(lens)}})
				}
			}
		}
	}
	rounds := r.Range(1, 6)
	if long {
		rounds = r.Range(4, 12)
	}
	if long && r.Chance(1, 3) {
		// the first nonce hour ends with nothing of the library's own on the wire for a while
		// (a one-hour allocation is refreshed every 30 minutes, and a permission asked for by the
		// application is not in the library's refresh set): the first request with the aged
		// nonce is the ConnectionBind of an Accept, or the Connect of a Dial
		p.Flavor += "+nonce-hour"
		p.Cfg.AllocLifeS = 3600
		pi := r.Intn(np)
		pid, peer := p.Peers[pi].ID, p.Peers[pi].Addr
		at := int64(3600+r.Range(70, 1500)) * sec // absolute instant of the call
		if r.Chance(1, 2) {
			add(Op{Actor: "c1", Kind: "perm", At: gap(at - 120*sec - 2500*ms), A: OpArgs{Peer: peer}})
			add(Op{Actor: pid, Kind: "peer_connect", At: gap(118 * sec), A: OpArgs{Target: "c1", N: 0}})
			add(Op{Actor: "c1", Kind: "accept", At: gap(2 * sec), A: OpArgs{DurNS: 28 * sec, N: len(p.Ops), Flags: []string{"expect"}}})
			permitted[pi], everPermitted[pi] = true, true
			nconn++
			npeerc[pid]++
		} else {
			add(Op{Actor: "c1", Kind: "perm", At: gap(at - 120*sec - 2500*ms), A: OpArgs{Peer: peer}})
			add(Op{Actor: "c1", Kind: "dial", At: gap(120 * sec), A: OpArgs{Peer: peer, Flags: []string{"expect"}}})
			dialled[pi] = true
			permitted[pi], everPermitted[pi] = true, true
			nconn++
			npeerc[pid]++
		}
		add(Op{Actor: "", Kind: "wait", At: gap(3 * sec)})
		data(r.Range(1, 3))
	}
	for i := 0; i < rounds; i++ {
		pi := r.Intn(np)
		pid, peer := p.Peers[pi].ID, p.Peers[pi].Addr
		g := gap(int64(r.Range(100, 2500)) * ms)
		if r.Chance(1, 8) || (long && r.Chance(1, 2)) {
			// long quiet periods: the allocation and its permissions are refreshed by the library
			g = gap(int64(r.PickInt([]int{200, 400, 700, 2000, 4000})) * sec)
			// (a permission asked for with Client.CreatePermission is a single request: only
			// those the library made for a Dial are in its refresh set)
			for k := range permitted {
				if !dialled[k] {
					delete(permitted, k)
				}
			}
		}
		switch w := r.Intn(100); {
		case w < 35:
			o := Op{Actor: "c1", Kind: "dial", At: g, A: OpArgs{Peer: peer}}
			if !dialled[pi] {
				o.A.Flags = []string{"expect"}
			}
			dialled[pi] = true
			permitted[pi], everPermitted[pi] = true, true
			add(o)
			nconn++
			npeerc[pid]++
		case w < 70:
			if !permitted[pi] {
				add(Op{Actor: "c1", Kind: "perm", At: g, A: OpArgs{Peer: peer}})
				permitted[pi], everPermitted[pi] = true, true
				g = gap(int64(r.Range(500, 2000)) * ms)
			}
			// the peer connects; the application accepts a little earlier or up to 20 s later
			delta := int64(r.Range(0, 20000)) * ms
			o := Op{Actor: "c1", Kind: "accept", A: OpArgs{DurNS: 28 * sec}}
			if acceptClean {
				o.A.Flags = []string{"expect"}
			}
			if r.Chance(1, 4) {
				o.At = g
				o.A.N = len(p.Ops) + 2 // the number of the connect made for it (checked at run time)
				add(o)
				add(Op{Actor: pid, Kind: "peer_connect", At: gap(int64(r.Range(100, 3000)) * ms), A: OpArgs{Target: "c1", N: 0}})
			} else {
				if r.Chance(1, 8) {
					delta = r.PickI64([]int64{29 * sec, 29*sec + 900*ms, 30*sec + 100*ms, 31 * sec}) // at the bind deadline: either outcome
					o.A.Flags = nil
					acceptClean = false
				}
				add(Op{Actor: pid, Kind: "peer_connect", At: g, A: OpArgs{Target: "c1", N: 0}})
				o.At = gap(delta + 1)
				o.A.N = len(p.Ops)
				add(o)
			}
			nconn++
			npeerc[pid]++
			add(Op{Actor: "", Kind: "wait", At: gap(2 * sec)})
		case w < 76:
			add(Op{Actor: "c1", Kind: "dial", At: g, A: OpArgs{Peer: "10.0.2.77:9"}}) // nobody listens: refused, and the client goes on
			nconn++
		case w < 84:
			// more connection attempts than the client queues, nobody accepting: its inbound path stays open
			if !permitted[pi] {
				add(Op{Actor: "c1", Kind: "perm", At: g, A: OpArgs{Peer: peer}})
				permitted[pi], everPermitted[pi] = true, true
			}
			for k := r.PickInt([]int{3, 11, 14}); k > 0; k-- {
				add(Op{Actor: pid, Kind: "peer_connect", At: gap(int64(r.Range(1, 100)) * ms), A: OpArgs{Target: "c1", N: 0}})
				npeerc[pid]++
			}
			acceptClean = false
		case w < 90:
			// a peer without a permission knocks: never announced
			q := (pi + 1) % np
			if !everPermitted[q] {
				add(Op{Actor: p.Peers[q].ID, Kind: "peer_connect", At: g, A: OpArgs{Target: "c1", N: 0}})
				npeerc[p.Peers[q].ID]++
			}
		case w < 95:
			if nconn > 0 {
				add(Op{Actor: "c1", Kind: "conn_close", At: g, A: OpArgs{N: r.Intn(nconn)}})
			}
		default:
			if n := npeerc[pid]; n > 0 {
				o := Op{Actor: pid, Kind: "peer_close", At: g, A: OpArgs{N: r.Intn(n)}}
				if r.Chance(1, 3) {
					o.A.Flags = []string{"rst"}
				}
				add(o)
			}
		}
		data(r.Intn(5))
	}
	if r.Chance(1, 3) {
		add(Op{Actor: "c1", Kind: "close_tcp", At: gap(int64(r.Range(100, 3000)) * ms)})
	}
	add(Op{Actor: "", Kind: "wait", At: gap(10 * sec)})
	p.QuietNS = 40 * sec
	if r.Chance(1, 4) && !long {
		addFaults(p, r, 1)
	}
}
