package sim

import (
	"fmt"
	"net"
	"time"

	"github.com/pion/turn/v5/internal/client"
)

// RFC 6062 end to end (W-e2e, flavour e2e-tcprelay): the real client's TCPAllocation - Dial,
// Accept, the data connections it opens and binds by itself - against the real server, with
// scripted TCP peers. The wire rules of monitor_tcp*.go judge the server as in the scripted
// plans; on top of them the application's view is judged here: a Dial to a listening peer
// and an Accept of an announced connection succeed, name the right peer, and the bytes the
// application and the peer write come out at the other end intact and in order.

var errSkipped = fmt.Errorf("not issued: another Accept is pending")

type realTConn struct {
	Idx    int
	How    string // dial | accept
	Want   string // dial target
	Expect bool   // the plan guarantees the conditions under which this call has to succeed
	OpID   int
	Link   int    // accept: id of the peer_connect operation it is meant for
	Conn   *client.TCPConn
	Err    error
	Done   bool
	T0, T1 int64
	Sent   []byte
	Recv   []byte
	wq     [][]byte
	writing bool
	WriteErr error
	Closed  bool
	ReadEnd bool
}

func (w *SrvWorld) realTCPRelayOf(id string) *net.TCPAddr {
	rc := w.Real[id]
	if rc == nil {
		return nil
	}
	w.e2eMu.Lock()
	defer w.e2eMu.Unlock()
	if rc.TAlloc == nil {
		return nil
	}
	ta, _ := rc.TAlloc.Addr().(*net.TCPAddr)
	return ta
}

// execRealTCP handles the TCP-allocation operations of a real client.
func (w *SrvWorld) execRealTCP(rc *RealClient, op *Op) bool {
	w.e2eMu.Lock()
	cli, ta := rc.Cli, rc.TAlloc
	w.e2eMu.Unlock()
	switch op.Kind {
	case "alloc_tcp":
		rc.allocStart = time.Now().Unix()
		w.lib("alloc-tcp", func() {
			a, err := cli.AllocateTCP()
			w.e2eMu.Lock()
			rc.Err = err
			if err == nil {
				rc.TAlloc = a
			}
			rc.allocAt = w.K.Now()
			rc.allocDone = true
			rc.allocEnd = time.Now().Unix()
			late := rc.tcpDone
			w.e2eMu.Unlock()
			if late && err == nil {
				_ = a.Close() // the plan is over (the call sat behind a long stall): the application lets go at once
			}
		})
	case "perm":
		if ta == nil {
			return true
		}
		peer := mustUDPAddr(op.A.Peer)
		w.lib("perm", func() {
			// the call reports a stale nonce as "try again": the application does
			for i := 0; i < 3; i++ {
				if err := cli.CreatePermission(&net.TCPAddr{IP: peer.IP, Port: peer.Port}); err == nil {
					return
				}
			}
		})
	case "dial", "accept":
		if ta == nil {
			return true
		}
		rt := &realTConn{How: op.Kind, Want: op.A.Peer, Expect: hasFlag(op, "expect"), T0: w.K.Now(), OpID: op.ID, Link: op.A.N}
		w.e2eMu.Lock()
		rt.Idx = len(rc.TConns)
		rc.TConns = append(rc.TConns, rt)
		if op.Kind == "accept" {
			// one Accept at a time: all pending Accepts of a TCPAllocation share one deadline
			// timer, which releases one of them (their deadline behaviour is nobody's property
			// here; see DESIGN.md, side observations)
			for _, o := range rc.TConns {
				if o != rt && o.How == "accept" && !o.Done {
					rt.Done, rt.Err, rt.Expect, rt.T1 = true, errSkipped, false, rt.T0
				}
			}
		}
		skipped := rt.Done
		w.e2eMu.Unlock()
		if skipped {
			return true
		}
		dur := time.Duration(op.A.DurNS)
		w.lib(op.Kind, func() {
			var c *client.TCPConn
			var err error
			if rt.How == "dial" {
				peer := mustUDPAddr(rt.Want)
				c, err = ta.DialTCP("tcp", nil, &net.TCPAddr{IP: peer.IP, Port: peer.Port})
			} else {
				_ = ta.SetDeadline(time.Now().Add(dur))
				var nc net.Conn
				nc, err = ta.AcceptTCP()
				if err == nil {
					c, _ = nc.(*client.TCPConn)
					if c == nil {
						err = fmt.Errorf("AcceptTCP returned a %T", nc)
					}
				}
			}
			w.e2eMu.Lock()
			rt.Conn, rt.Err, rt.Done, rt.T1 = c, err, true, w.K.Now()
			late := rc.tcpDone
			if late && err == nil {
				rt.Closed = true
			}
			w.e2eMu.Unlock()
			if err != nil {
				return
			}
			if late {
				_ = c.Close()
				return
			}
			w.K.Stats.Probe("e2e_tcp_" + rt.How + "_ok")
			buf := make([]byte, 32768)
			for {
				n, err := c.Read(buf)
				w.e2eMu.Lock()
				rt.Recv = append(rt.Recv, buf[:n]...)
				if err != nil {
					rt.ReadEnd = true
				}
				w.e2eMu.Unlock()
				if err != nil {
					return
				}
			}
		})
	case "conn_write":
		w.e2eMu.Lock()
		var rt *realTConn
		if op.A.N >= 0 && op.A.N < len(rc.TConns) {
			rt = rc.TConns[op.A.N]
		}
		if rt == nil || !rt.Done || rt.Err != nil || rt.Closed {
			w.e2eMu.Unlock()
			return true
		}
		payload := MakePayload(w.P.Seed, rc.Spec.ID, op)
		rt.Sent = append(rt.Sent, payload...)
		rt.wq = append(rt.wq, payload)
		start := !rt.writing
		rt.writing = true
		c := rt.Conn
		w.e2eMu.Unlock()
		if start {
			// one writer per connection: the application's writes keep their order
			w.lib("conn-write", func() {
				for {
					w.e2eMu.Lock()
					if len(rt.wq) == 0 {
						rt.writing = false
						w.e2eMu.Unlock()
						return
					}
					b := rt.wq[0]
					rt.wq = rt.wq[1:]
					w.e2eMu.Unlock()
					if _, err := c.Write(b); err != nil {
						w.e2eMu.Lock()
						rt.WriteErr = err
						w.e2eMu.Unlock()
					}
				}
			})
		}
	case "conn_close":
		w.e2eMu.Lock()
		var rt *realTConn
		if op.A.N >= 0 && op.A.N < len(rc.TConns) {
			rt = rc.TConns[op.A.N]
		}
		if rt == nil || !rt.Done || rt.Err != nil || rt.Closed {
			w.e2eMu.Unlock()
			return true
		}
		rt.Closed = true
		c := rt.Conn
		w.e2eMu.Unlock()
		w.lib("conn-close", func() { _ = c.Close() })
	case "tcp_close":
		// the control connection goes away under the client (a teardown cause)
		w.e2eMu.Lock()
		tc := rc.tconn
		w.e2eMu.Unlock()
		if tc != nil {
			if hasFlag(op, "rst") {
				tc.reset()
			} else {
				_ = tc.Close()
			}
			w.Mon.ControlClosed(ustr(rc.Addr))
		}
	case "close_tcp":
		if ta == nil {
			return true
		}
		w.e2eMu.Lock()
		if !rc.Closed {
			rc.Closed, rc.ClosedAt = true, w.K.Now()
		}
		w.e2eMu.Unlock()
		w.lib("close-tcp", func() { _ = ta.Close() })
	default:
		return false
	}
	return true
}

// closeRealTCP: end of plan - the application closes what it still holds.
func (w *SrvWorld) closeRealTCP(rc *RealClient) {
	w.e2eMu.Lock()
	var open []*client.TCPConn
	for _, rt := range rc.TConns {
		if rt.Done && rt.Err == nil && !rt.Closed {
			rt.Closed = true
			open = append(open, rt.Conn)
		}
	}
	ta, closed := rc.TAlloc, rc.Closed
	rc.tcpDone = true
	w.e2eMu.Unlock()
	for _, c := range open {
		cc := c
		w.lib("conn-close", func() { _ = cc.Close() })
	}
	if ta != nil && !closed {
		w.lib("close-tcp", func() { _ = ta.Close() })
	}
}

func (w *SrvWorld) cleanForExpectations() bool {
	for i := range w.P.Ops {
		if k := w.P.Ops[i].Kind; k == "srv_close" || k == "tcp_close" {
			return false
		}
	}
	return w.lossFree && len(w.K.StallIntervals()) == 0 && len(w.P.IOFaults) == 0 && len(w.P.NetFaults) == 0 && !w.closedSrv
}

// expectationHolds re-derives, from what really happened in this run, the conditions under
// which a flagged call has to succeed - the plan's flag alone is not trusted, so that a
// minimiser that drops the peer, the permission or the peer's connect drops the expectation
// with it. Called under e2eMu.
func (w *SrvWorld) expectationHolds(rc *RealClient, rt *realTConn) bool {
	ok, why := w.expectationHoldsWhy(rc, rt)
	if !ok && rt.Expect {
		w.K.Logf("expectation of %s #%d void: %s", rt.How, rt.Idx, why)
	}
	return ok
}

func (w *SrvWorld) expectationHoldsWhy(rc *RealClient, rt *realTConn) (bool, string) {
	if rc.Closed && rc.ClosedAt <= rt.T1 {
		return false, "allocation closed by the application"
	}
	switch rt.How {
	case "dial":
		listening := false
		for _, p := range w.Peers {
			if p.ln != nil && akey(p.Addr.IP, p.Addr.Port) == rt.Want {
				listening = true
			}
		}
		if !listening {
			return false, "nobody listens at " + rt.Want
		}
		// RFC 6062 allows one connection per peer address: of two Dials to one peer that overlap
		// (or of a later one while the first connection lives) either may be the one refused
		for _, o := range rc.TConns {
			if o != rt && o.How == "dial" && o.Want == rt.Want && o.T0 <= rt.T1 {
				return false, "another Dial to the same peer"
			}
		}
		return true, ""
	case "accept":
		// the one peer connection made for this Accept: issued in time, by a peer the
		// allocation had a permission for, and every earlier connect was consumed by an
		// earlier successful Accept (the client's queue holds nothing stale)
		var link *Op
		before := 0
		for i := range w.P.Ops {
			o := &w.P.Ops[i]
			if o.Kind != "peer_connect" || o.A.Target != rc.Spec.ID {
				continue
			}
			if o.ID == rt.Link {
				link = o
			} else if t, ok := w.issuedAt[o.ID]; ok && t <= rt.T1 {
				before++
			}
		}
		if link == nil {
			return false, "the connect it is linked to is not in the plan"
		}
		tc, ok := w.issuedAt[link.ID]
		if !ok || tc < rt.T0-20500*ms || (tc > rt.T1-3*sec && tc > rt.T0) {
			return false, fmt.Sprintf("connect issued at %d, Accept %d..%d", tc, rt.T0, rt.T1)
		}
		okBefore := 0
		for _, o := range rc.TConns {
			if o != rt && o.How == "accept" && o.OpID < rt.OpID {
				if !o.Done || o.Err != nil {
					return false, "an earlier Accept failed"
				}
				if o.T1 > tc {
					// (it was still waiting when this connection was made - its own was refused or
					// never came - and an Accept takes whichever connection is announced next)
					return false, "an earlier Accept was still waiting when this connection was made"
				}
				okBefore++
			}
		}
		if before != okBefore {
			return false, fmt.Sprintf("%d other connects, %d earlier Accepts", before, okBefore)
		}
		p := w.Peers[link.Actor]
		if p == nil {
			return false, "no such peer"
		}
		w.Mon.mu.Lock()
		defer w.Mon.mu.Unlock()
		for _, a := range w.Mon.M.Allocs[ustr(rc.Addr)] {
			if a.TCP && w.Mon.M.DefinitelyAlive(a, tc, rt.T1) && w.Mon.M.PermDefinitely(a, p.Addr.IP.String(), tc, tc+sec) {
				return true, ""
			}
		}
		return false, "the model holds no permission for the peer (or the allocation is not certainly alive)"
	}
	return false, "?"
}

// checkE2ETCP: the application's view of the TCP relay.
func (w *SrvWorld) checkE2ETCP() {
	if w.K.Free {
		return
	}
	clean := w.cleanForExpectations()
	w.e2eMu.Lock()
	defer w.e2eMu.Unlock()
	for _, rc := range w.realClients() {
		if rc.TAlloc == nil {
			continue
		}
		relay, _ := rc.TAlloc.Addr().(*net.TCPAddr)
		for _, rt := range rc.TConns {
			if !rt.Done {
				rt.T1 = w.K.Now()
				if rt.Expect && clean && w.expectationHolds(rc, rt) {
					w.K.Violate(&Violation{Property: "C16", Class: "e2e-call-stuck", Key: kv("how", rt.How),
						Detail: fmt.Sprintf("%s #%d started at %d ns has not returned by the end of the plan", rt.How, rt.Idx, rt.T0)})
				}
				continue
			}
			if rt.Err != nil {
				if rt.Expect && clean && w.expectationHolds(rc, rt) {
					detail := fmt.Sprintf("%s #%d (peer %s, %d..%d ns, %.0f s after AllocateTCP) failed although the peer was there, permitted and in time: %v", rt.How, rt.Idx, rt.Want, rt.T0, rt.T1, float64(rt.T0-rc.allocAt)/1e9, rt.Err)
					w.K.Violate(&Violation{Property: "C16", Class: "e2e-" + rt.How + "-failed", Key: nil, Detail: detail})
					if rt.T0-rc.allocAt > 290*sec {
						// (C14) the allocation is a live client's: past the first refresh horizons it has to
						// work as on its first day - refreshed allocation, refreshed permissions, current nonce
						horizon := "first-hour"
						if rt.T0-rc.allocAt > 3500*sec {
							horizon = "beyond-nonce-hour"
						}
						key := kv("how", rt.How, "horizon", horizon)
						for _, at := range w.Net.SilentDials {
							if at < rt.T0 && at > rc.allocAt {
								// the server dialled a host that never answers on this allocation's behalf
								key["cause"] = "after-connect-to-silent-peer"
							}
						}
						w.K.Violate(&Violation{Property: "C14", Class: "tcp-relay-dead", Key: key, Detail: detail})
					}
				}
				continue
			}
			if rt.Expect && clean && w.expectationHolds(rc, rt) {
				w.K.Stats.Probe("e2e_expectation_met_" + rt.How)
			}
			cid := uint32(rt.Conn.ConnectionID)
			w.Mon.mu.Lock()
			_, t := w.Mon.findTCPByCID(cid)
			var far *TCPConn
			if t != nil && t.Conn != nil {
				far = t.Conn.peer
			}
			w.Mon.mu.Unlock()
			var pc *peerConn
			var owner *PeerActor
			for _, p := range w.Peers {
				p.mu.Lock()
				for _, x := range p.Conns {
					if far != nil && x.Conn == far {
						pc, owner = x, p
					}
				}
				p.mu.Unlock()
			}
			if pc == nil {
				w.K.Violate(&Violation{Property: "C16", Class: "e2e-conn-unreal", Key: kv("how", rt.How),
					Detail: fmt.Sprintf("%s #%d returned connection id %d, but no peer holds the other end of it", rt.How, rt.Idx, cid)})
				continue
			}
			// who is at the other end
			rem, _ := rt.Conn.RemoteAddr().(*net.TCPAddr)
			pl := pc.Conn.laddr
			if rem == nil || !rem.IP.Equal(pl.IP) || rem.Port != pl.Port {
				w.K.Violate(&Violation{Property: "C16", Class: "e2e-wrong-peer", Key: kv("how", rt.How),
					Detail: fmt.Sprintf("%s #%d: RemoteAddr is %v, the peer end of connection %d is %s (%s)", rt.How, rt.Idx, rem, cid, akey(pl.IP, pl.Port), owner.Spec.ID)})
			}
			if rt.How == "dial" && rt.Want != akey(pl.IP, pl.Port) {
				w.K.Violate(&Violation{Property: "C16", Class: "e2e-wrong-peer", Key: kv("how", "dial-target"),
					Detail: fmt.Sprintf("Dial(%s) is connected to %s", rt.Want, akey(pl.IP, pl.Port))})
			}
			if pr := pc.Conn.raddr; relay != nil && (!pr.IP.Equal(relay.IP) || (rt.How == "accept" && pr.Port != relay.Port)) {
				w.K.Violate(&Violation{Property: "C16", Class: "e2e-wrong-peer", Key: kv("how", "relay-side"),
					Detail: fmt.Sprintf("%s #%d: the peer sees %s at the other end, the relayed address is %v", rt.How, rt.Idx, akey(pr.IP, pr.Port), relay)})
			}
			owner.mu.Lock()
			psent, precv, pclosed := append([]byte(nil), pc.Sent...), append([]byte(nil), pc.Recv...), pc.Closed
			owner.mu.Unlock()
			closed := rt.Closed || rt.ReadEnd || pclosed || rt.WriteErr != nil || rc.Closed
			w.cmpStream(cid, "e2e-c2p", rt.Sent, precv, closed)
			w.cmpStream(cid, "e2e-p2c", psent, rt.Recv, closed)
		}
	}
}
