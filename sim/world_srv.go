package sim

import (
	"sort"
	"fmt"
	"net"
	"runtime"
	"strings"
	"sync"
	"time"

	"github.com/pion/turn/v5"
)

// SrvWorld (W-srv / W-tcp): the real turn.Server on simnet, scripted raw clients and peers.
type SrvWorld struct {
	K   *Kernel
	P   *Plan
	Net *Net
	Mon *Monitor
	LF  *SimLoggerFactory

	Srv     *turn.Server
	Mini    *miniServer // handler-level server (chosen nonce manager), when cfg.Nonce is set
	SrvAddr *net.UDPAddr
	srvSock *UDPSock
	srvLn   *TCPListener
	Clients map[string]*RawClient
	Real    map[string]*RealClient
	e2eMu   sync.Mutex
	PeerProbes map[string]*peerProbe
	releaseReported bool
	Peers   map[string]*PeerActor
	Gen     *SimRelayGen

	inspectReq chan func()
	inspectRes chan struct{}
	libWG      sync.WaitGroup
	libPending int
	libMu      sync.Mutex
	prevIssue  int64
	opIdx      int
	done       bool
	Submitted  map[string][]byte // "actor/op" -> payload
	closedSrv  bool
	lockLeakReported bool
	started    chan struct{}
	finalTries int
	lossFree   bool
	pausedTCP  bool // some scripted client stops reading its connection for a while (tcp_pause)
	issuedAt   map[int]int64 // op id -> instant it was issued
	wedgeReported bool
	authMu     sync.Mutex
	users      map[string]string // the operator's user table as of now
}

type PeerActor struct {
	W        *SrvWorld
	Spec     PeerSpec
	Addr     *net.UDPAddr
	sock     *UDPSock
	mu       sync.Mutex
	Received []RecvRec
	ln       *TCPListener
	Conns    []*peerConn
}

// SimRelayGen is the harness relay address generator: relay sockets/listeners on simnet.
type SimRelayGen struct {
	W    *SrvWorld
	IP4  net.IP
	IP6  net.IP
}

func (g *SimRelayGen) Validate() error { return nil }

func (g *SimRelayGen) ipFor(network string) net.IP {
	if strings.HasSuffix(network, "6") {
		return g.IP6
	}
	return g.IP4
}

func (g *SimRelayGen) AllocatePacketConn(c turn.AllocateListenerConfig) (net.PacketConn, net.Addr, error) {
	g.W.K.Yield("cb:AllocatePacketConn", c.UserID)
	s, err := g.W.Net.ListenUDP("relay", c.UserID, g.ipFor(c.Network), c.RequestedPort)
	if err != nil {
		return nil, nil, err
	}
	return s, s.LocalAddr(), nil
}

func (g *SimRelayGen) AllocateListener(c turn.AllocateListenerConfig) (net.Listener, net.Addr, error) {
	g.W.K.Yield("cb:AllocateListener", c.UserID)
	l, err := g.W.Net.ListenTCP("relay", c.UserID, g.ipFor(c.Network), c.RequestedPort)
	if err != nil {
		return nil, nil, err
	}
	return l, l.Addr(), nil
}

func (g *SimRelayGen) AllocateConn(c turn.AllocateConnConfig) (net.Conn, error) {
	g.W.K.Yield("cb:AllocateConn", c.UserID)
	la, _ := c.LocalAddr.(*net.TCPAddr)
	ra, _ := c.RemoteAddr.(*net.TCPAddr)
	if la == nil || ra == nil {
		return nil, fmt.Errorf("simgen: bad addresses")
	}
	conn, err := g.W.Net.Dial("relay-out", &net.TCPAddr{IP: la.IP, Port: 0}, ra, 0)
	if err != nil {
		return nil, err
	}
	if !g.W.K.Free {
		g.W.Mon.OutboundDialed(akey(la.IP, la.Port), conn)
	}
	return conn, nil
}

func NewSrvWorld(k *Kernel, p *Plan) *SrvWorld {
	w := &SrvWorld{K: k, P: p, Clients: map[string]*RawClient{}, Real: map[string]*RealClient{}, PeerProbes: map[string]*peerProbe{}, Peers: map[string]*PeerActor{}, Submitted: map[string][]byte{},
		inspectReq: make(chan func()), inspectRes: make(chan struct{}), started: make(chan struct{})}
	w.Net = NewNet(k)
	w.Mon = NewMonitor(k, w.Net, p)
	if !k.Free {
		w.Net.Obs = w.Mon
	}
	w.LF = NewLoggerFactory(k, p.Expect != nil || p.Tier == "replay")
	w.lossFree = true
	for _, f := range p.NetFaults {
		if f.Do == "drop" || f.Do == "corrupt" || f.Do == "truncate" {
			w.lossFree = false
		}
	}
	for _, o := range p.Ops {
		if o.Kind == "tcp_pause" {
			w.pausedTCP = true
		}
	}
	return w
}

func (w *SrvWorld) noteSubmission(actor string, op *Op, payload []byte) {
	w.Submitted[fmt.Sprintf("%s/%d", actor, op.ID)] = payload
}

// lib runs f (library code) in its own bubble goroutine; the driver never calls the library.
func (w *SrvWorld) lib(name string, f func()) {
	w.libMu.Lock()
	w.libPending++
	w.libMu.Unlock()
	go func() {
		defer func() {
			w.libMu.Lock()
			w.libPending--
			w.libMu.Unlock()
		}()
		f()
	}()
}

func (w *SrvWorld) LibPending() int {
	w.libMu.Lock()
	defer w.libMu.Unlock()
	return w.libPending
}

// inspect runs f on the inspector goroutine with parking disabled and waits for it.
func (w *SrvWorld) inspect(f func()) {
	w.K.Inspecting.Store(true)
	w.inspectReq <- f
	<-w.inspectRes
	w.K.Inspecting.Store(false)
}

func (w *SrvWorld) startInspector() {
	go func() {
		for f := range w.inspectReq {
			f()
			w.inspectRes <- struct{}{}
		}
	}()
}

func (w *SrvWorld) authHandler() turn.AuthHandler {
	cfg := w.P.Cfg
	switch cfg.Auth {
	case "none":
		return nil
	case "ltcred":
		return turn.NewLongTermAuthHandler(cfg.Secret, w.LF.NewLogger("auth"))
	case "turnrest":
		return turn.LongTermTURNRESTAuthHandler(cfg.Secret, w.LF.NewLogger("auth"))
	}
	w.authMu.Lock()
	w.users = map[string]string{}
	for _, u := range cfg.Users {
		w.users[u.Name] = u.Pass
	}
	w.authMu.Unlock()
	return func(ra *turn.RequestAttributes) (string, []byte, bool) {
		w.K.Yield("cb:Auth", ra.Username)
		// the operator's user table can change while allocations live (op "rotate")
		w.authMu.Lock()
		pass, ok := w.users[ra.Username]
		w.authMu.Unlock()
		if !ok {
			return "", nil, false
		}
		return ra.Username, turn.GenerateAuthKey(ra.Username, ra.Realm, pass), true
	}
}

func addrStr(a net.Addr) string {
	switch x := a.(type) {
	case *net.UDPAddr:
		return akey(x.IP, x.Port)
	case *net.TCPAddr:
		return akey(x.IP, x.Port)
	}
	if a == nil {
		return "<nil>"
	}
	return a.String()
}

func (w *SrvWorld) eventHandler() turn.EventHandler {
	if !w.P.Cfg.Events {
		return turn.EventHandler{}
	}
	if w.K.Free {
		// callbacks that share nothing
		return turn.EventHandler{
			OnAuth:              func(src, dst net.Addr, proto, user, realm, method string, verdict bool) {},
			OnAllocationCreated: func(src, dst net.Addr, proto, user, realm string, relay net.Addr, port int) {},
			OnAllocationDeleted: func(src, dst net.Addr, proto, user, realm string) {},
			OnAllocationError:   func(src, dst net.Addr, proto, msg string) {},
			OnPermissionCreated: func(src, dst net.Addr, proto, user, realm string, relay net.Addr, peer net.IP) {},
			OnPermissionDeleted: func(src, dst net.Addr, proto, user, realm string, relay net.Addr, peer net.IP) {},
			OnChannelCreated:    func(src, dst net.Addr, proto, user, realm string, relay, peer net.Addr, n uint16) {},
			OnChannelDeleted:    func(src, dst net.Addr, proto, user, realm string, relay, peer net.Addr, n uint16) {},
		}
	}
	m := w.Mon
	k := w.K
	return turn.EventHandler{
		OnAuth: func(src, dst net.Addr, proto, user, realm, method string, verdict bool) {
			m.Event("auth", fmt.Sprintf("%s|%s|%s|%v", addrStr(src), user, method, verdict))
			k.Yield("cb:OnAuth", addrStr(src))
		},
		OnAllocationCreated: func(src, dst net.Addr, proto, user, realm string, relay net.Addr, port int) {
			m.Event("alloc-created", addrStr(src))
			k.Yield("cb:OnAllocationCreated", addrStr(src))
		},
		OnAllocationDeleted: func(src, dst net.Addr, proto, user, realm string) {
			m.Event("alloc-deleted", addrStr(src))
			k.Yield("cb:OnAllocationDeleted", addrStr(src))
		},
		OnAllocationError: func(src, dst net.Addr, proto, msg string) {
			m.Event("alloc-error", addrStr(src))
			k.Yield("cb:OnAllocationError", addrStr(src))
		},
		OnPermissionCreated: func(src, dst net.Addr, proto, user, realm string, relay net.Addr, peer net.IP) {
			m.Event("perm-created", addrStr(src)+"|"+addrStr(relay)+"|"+peer.String())
			k.Yield("cb:OnPermissionCreated", addrStr(src)+"|"+peer.String())
		},
		OnPermissionDeleted: func(src, dst net.Addr, proto, user, realm string, relay net.Addr, peer net.IP) {
			m.Event("perm-deleted", addrStr(src)+"|"+addrStr(relay)+"|"+peer.String())
			k.Yield("cb:OnPermissionDeleted", addrStr(src)+"|"+peer.String())
		},
		OnChannelCreated: func(src, dst net.Addr, proto, user, realm string, relay, peer net.Addr, n uint16) {
			m.Event("chan-created", fmt.Sprintf("%s|%s|%s|%d", addrStr(src), addrStr(relay), addrStr(peer), n))
			k.Yield("cb:OnChannelCreated", addrStr(src))
		},
		OnChannelDeleted: func(src, dst net.Addr, proto, user, realm string, relay, peer net.Addr, n uint16) {
			m.Event("chan-deleted", fmt.Sprintf("%s|%s|%s|%d", addrStr(src), addrStr(relay), addrStr(peer), n))
			k.Yield("cb:OnChannelDeleted", addrStr(src))
		},
	}
}

// Start builds the server (in an actor goroutine) and the scripted endpoints.
func (w *SrvWorld) Start() {
	cfg := w.P.Cfg
	ip := net.ParseIP(cfg.ListenerIP)
	w.SrvAddr = &net.UDPAddr{IP: ip, Port: 3478}
	w.Net.ServerIPs[ip.String()] = true
	w.Net.SetName(akey(ip, 3478), "srv")
	w.Mon.ListenerKey = akey(ip, 3478)
	r4, r6 := cfg.RelayIP4, cfg.RelayIP6
	if r4 == "" {
		r4 = "10.0.0.2"
	}
	if r6 == "" {
		r6 = "fd00::2"
	}
	w.Gen = &SimRelayGen{W: w, IP4: net.ParseIP(r4), IP6: net.ParseIP(r6)}
	w.Net.SetName(net.ParseIP(r4).String(), "relay4")
	w.Net.SetName(net.ParseIP(r6).String(), "relay6")
	for _, c := range w.P.Clients {
		a := mustUDPAddr(c.Addr)
		w.Net.SetName(akey(a.IP, a.Port), c.ID)
	}
	for _, p := range w.P.Peers {
		a := mustUDPAddr(p.Addr)
		w.Net.SetName(akey(a.IP, a.Port), p.ID)
	}
	w.startInspector()
	w.lib("server-start", func() {
		sc := turn.ServerConfig{
			Realm: cfg.Realm, AuthHandler: w.authHandler(), LoggerFactory: w.LF, EventHandler: w.eventHandler(),
			ChannelBindTimeout: time.Duration(cfg.ChanTimeoutS) * time.Second,
			PermissionTimeout:  time.Duration(cfg.PermTimeoutS) * time.Second,
			AllocationLifetime: time.Duration(cfg.AllocLifeS) * time.Second,
			InboundMTU:         cfg.InboundMTU, StrictAddressFamily: cfg.StrictFamily,
		}
		if len(cfg.DenyQuota) > 0 {
			deny := map[string]bool{}
			for _, u := range cfg.DenyQuota {
				deny[u] = true
			}
			sc.QuotaHandler = func(user, realm string, src net.Addr) bool {
				w.K.Yield("cb:Quota", user)
				return !deny[user]
			}
		}
		ph := func(client net.Addr, peer net.IP) bool {
			w.K.Yield("cb:Permission", addrStr(client)+"|"+peer.String())
			return !w.Mon.vetoed(addrStr(client), peer)
		}
		var rag turn.RelayAddressGenerator = w.Gen
		if k := cfg.Extra["real_gen"]; k != 0 {
			// one of the bundled generators over simnet instead of the harness's own: what the
			// server does with a real generator's sockets, ports and failures
			tr := &SimTransport{N: w.Net, Role: "relay", Owner: "srv", IP4: w.Gen.IP4, IP6: w.Gen.IP6}
			tr.OnDial = func(la *net.TCPAddr, c *TCPConn) {
				if la != nil && !w.K.Free {
					w.Mon.OutboundDialed(akey(la.IP, la.Port), c)
				}
			}
			if k == 1 {
				rag = &turn.RelayAddressGeneratorStatic{RelayAddress: w.Gen.IP4, Address: w.Gen.IP4.String(), Net: tr}
			} else if k == 100 {
				// one port: whoever allocates next gets the relayed address that was just given back
				rag = &turn.RelayAddressGeneratorPortRange{RelayAddress: w.Gen.IP4, Address: w.Gen.IP4.String(), Net: tr,
					MinPort: 50000, MaxPort: 50000, MaxRetries: 3}
			} else {
				rag = &turn.RelayAddressGeneratorPortRange{RelayAddress: w.Gen.IP4, Address: w.Gen.IP4.String(), Net: tr,
					MinPort: 50000, MaxPort: uint16(50000 + k), MaxRetries: 10}
			}
		}
		if cfg.Listener == "tcp" {
			l, err := w.Net.ListenTCP("listener", "srv", ip, 3478)
			if err != nil {
				Fatalf("listen tcp: %v", err)
			}
			w.srvLn = l
			sc.ListenerConfigs = []turn.ListenerConfig{{Listener: l, RelayAddressGenerator: rag, PermissionHandler: ph}}
		} else {
			s, err := w.Net.ListenUDP("listener", "srv", ip, 3478)
			if err != nil {
				Fatalf("listen udp: %v", err)
			}
			w.srvSock = s
			sc.PacketConnConfigs = []turn.PacketConnConfig{{PacketConn: s, RelayAddressGenerator: rag, PermissionHandler: ph}}
		}
		defer close(w.started)
		if cfg.Nonce != "" && cfg.Nonce != "server" && w.srvSock != nil {
			w.Mini = newMiniServer(w, sc, w.srvSock, ph)
			return
		}
		srv, err := turn.NewServer(sc)
		if err != nil {
			Fatalf("NewServer: %v", err)
		}
		w.Srv = srv
	})
	// scripted endpoints
	for i := range w.P.Clients {
		spec := w.P.Clients[i]
		if spec.Kind == "real" {
			w.startRealClient(spec)
			continue
		}
		c := &RawClient{W: w, Spec: spec, Addr: mustUDPAddr(spec.Addr), tids: map[int][12]byte{}, sent: map[int][]byte{}, pending: map[[12]byte]*pendOp{}}
		w.Clients[spec.ID] = c
		if cfg.Listener == "tcp" {
			continue // connects lazily on first use (op "tcp_connect" or implicitly)
		}
		s, err := w.Net.ListenUDP("client", spec.ID, c.Addr.IP, c.Addr.Port)
		if err != nil {
			Fatalf("client socket: %v", err)
		}
		s.SetHandler(func(d *Dgram) { c.onWire(d.Payload) })
		c.sock = s
	}
	for i := range w.P.Peers {
		spec := w.P.Peers[i]
		p := &PeerActor{W: w, Spec: spec, Addr: mustUDPAddr(spec.Addr)}
		w.Peers[spec.ID] = p
		s, err := w.Net.ListenUDP("peer", spec.ID, p.Addr.IP, p.Addr.Port)
		if err != nil {
			Fatalf("peer socket: %v", err)
		}
		s.SetHandler(func(d *Dgram) {
			p.mu.Lock()
			p.Received = append(p.Received, RecvRec{T: w.K.Now(), Kind: "dgram", From: ustr(d.From), Data: d.Payload})
			p.mu.Unlock()
		})
		p.sock = s
		if w.P.Cfg.Extra["tcp_peers"] == 1 {
			p.startTCP()
		}
	}
}

func (c *RawClient) ensureConn() {
	c.mu.Lock()
	defer c.mu.Unlock()
	if c.conn != nil || c.W.P.Cfg.Listener != "tcp" {
		return
	}
	w := c.W
	placeholder := &TCPConn{}
	c.conn = placeholder
	w.Net.DialAsync("client", &net.TCPAddr{IP: c.Addr.IP, Port: c.Addr.Port}, &net.TCPAddr{IP: w.SrvAddr.IP, Port: w.SrvAddr.Port},
		func(conn *TCPConn, err error) {
			c.mu.Lock()
			defer c.mu.Unlock()
			if err != nil {
				c.conn = nil
				return
			}
			conn.SetScripted(func(_ *TCPConn, b []byte) { c.onStream(b) }, nil)
			c.conn = conn
			c.connUp = true
			for _, b := range c.queue {
				_, _ = conn.Write(b)
			}
			c.queue = nil
		})
}

// relayOf returns the relayed address the model currently knows for a client id.
func (w *SrvWorld) relayOf(clientID string) *net.UDPAddr {
	c := w.Clients[clientID]
	if c == nil {
		return nil
	}
	if w.K.Free {
		c.mu.Lock()
		defer c.mu.Unlock()
		return c.Relay
	}
	w.Mon.mu.Lock()
	defer w.Mon.mu.Unlock()
	as := w.Mon.M.Allocs[ustr(c.Addr)]
	if len(as) == 0 {
		return nil
	}
	return as[len(as)-1].Relay
}

// resolvePeers: a peer written "@c2" is the relayed address of client c2 at this moment (traffic
// between two allocations of the same server; "@self" forms the loop through one's own relay).
// An allocation that does not exist stands for a port of the relay IP nobody holds.
func (w *SrvWorld) resolvePeers(op *Op) *Op {
	at := func(s string) (string, bool) {
		if !strings.HasPrefix(s, "@") {
			return s, false
		}
		if r := w.relayOf(s[1:]); r != nil {
			return ustr(r), true
		}
		return akey(w.Gen.IP4, 49000), true
	}
	p, changed := at(op.A.Peer)
	var ps []string
	for _, q := range op.A.Peers {
		x, ch := at(q)
		ps = append(ps, x)
		changed = changed || ch
	}
	if !changed {
		return op
	}
	o := *op
	o.A.Peer, o.A.Peers = p, ps
	return &o
}

func (w *SrvWorld) latencyFor(op *Op) int64 {
	if c := w.Clients[op.Actor]; c != nil {
		flow := w.Net.Name(c.Addr.IP, c.Addr.Port) + ">" + w.Net.Name(w.SrvAddr.IP, w.SrvAddr.Port)
		l := w.Net.latency(c.Addr.IP, w.SrvAddr.IP, flow)
		if w.P.Cfg.Listener == "tcp" {
			l++
		}
		return l
	}
	if p := w.Peers[op.Actor]; p != nil {
		if r := w.relayOf(op.A.Target); r != nil {
			flow := w.Net.Name(p.Addr.IP, p.Addr.Port) + ">" + w.Net.Name(r.IP, r.Port)
			return w.Net.latency(p.Addr.IP, r.IP, flow)
		}
	}
	return 0
}

// resolveAt turns an op's TimeSpec into an absolute issue time.
func (w *SrvWorld) resolveAt(op *Op) int64 {
	now := w.K.Now()
	if op.At.Ref == "" {
		t := w.prevIssue + freeGap(w.K, w.P, w.opIdx-1, op.At.GapNS)
		if t < now {
			t = now
		}
		return t
	}
	if w.K.Free && op.At.Ref != "abs" {
		return now + 1e6 // no reference model in free-running mode
	}
	fallback := now + 1e6
	var dl int64
	found := false
	w.Mon.mu.Lock()
	if len(op.At.Of) > 0 {
		if c := w.Clients[op.At.Of[0]]; c != nil {
			as := w.Mon.M.Allocs[ustr(c.Addr)]
			if len(as) > 0 {
				a := as[len(as)-1]
				switch op.At.Ref {
				case "alloc_deadline":
					dl, found = a.Deadline.Lo, true
				case "perm_deadline":
					if len(op.At.Of) > 1 {
						dl, found = w.Mon.M.PermDeadline(a, net.ParseIP(op.At.Of[1]).String())
					}
				case "tcp_deadline":
					// the bind deadline of the n-th peer connection of the allocation (creation order)
					if len(op.At.Of) > 1 {
						var n int
						fmt.Sscanf(op.At.Of[1], "%d", &n)
						var ts []*mTCP
						for _, t := range a.TCPs {
							ts = append(ts, t)
						}
						sort.Slice(ts, func(i, j int) bool {
							if ts[i].Created.Lo != ts[j].Created.Lo {
								return ts[i].Created.Lo < ts[j].Created.Lo
							}
							return ts[i].CID < ts[j].CID
						})
						if n >= 0 && n < len(ts) {
							dl, found = ts[n].Created.Lo+bindTimeoutNS, true
						}
					}
				case "chan_deadline":
					if len(op.At.Of) > 1 {
						var n int
						fmt.Sscanf(op.At.Of[1], "%d", &n)
						dl, found = w.Mon.M.ChanDeadline(a, uint16(n))
					}
				}
			}
		}
	}
	if op.At.Ref == "abs" {
		dl, found = 0, true
	}
	w.Mon.mu.Unlock()
	if !found {
		return fallback
	}
	t := dl + op.At.OffNS - w.latencyFor(op)
	if t <= now {
		return fallback
	}
	return t
}

// scheduleNext arms the issue event of the next plan op.
func (w *SrvWorld) scheduleNext() {
	if w.opIdx >= len(w.P.Ops) {
		w.K.At(w.K.Now()+w.P.QuietNS, "end-of-plan", func() { w.finish() })
		return
	}
	op := &w.P.Ops[w.opIdx]
	w.opIdx++
	at := w.resolveAt(op)
	w.K.At(at, fmt.Sprintf("op:%d:%s:%s", op.ID, op.Actor, op.Kind), func() {
		w.prevIssue = w.K.Now()
		w.K.Stats.Op(op.Kind)
		w.K.OpIssued(op.ID)
		if w.issuedAt == nil {
			w.issuedAt = map[int]int64{}
		}
		w.issuedAt[op.ID] = w.K.Now()
		w.exec(op)
		w.scheduleNext()
	})
}

func (w *SrvWorld) exec(op *Op) {
	if rc := w.Real[op.Actor]; rc != nil {
		w.execReal(rc, op)
		return
	}
	if c := w.Clients[op.Actor]; c != nil {
		c.ensureConn()
		c.Do(w.resolvePeers(op))
		return
	}
	if p := w.Peers[op.Actor]; p != nil {
		switch op.Kind {
		case "peer_send":
			var dst *net.UDPAddr
			if r := w.realRelayOf(op.A.Target); r != nil {
				dst = r
			} else if r := w.relayOf(op.A.Target); r != nil {
				dst = r
			} else if strings.Contains(op.A.Target, ":") {
				dst = mustUDPAddr(op.A.Target)
			} else {
				dst = &net.UDPAddr{IP: w.Gen.IP4, Port: 50000}
			}
			payload := MakePayload(w.P.Seed, p.Spec.ID, op)
			w.noteSubmission(p.Spec.ID, op, payload)
			src := p.Addr
			if op.A.N != 0 { // same IP, other port: a second socket of that host
				src = &net.UDPAddr{IP: p.Addr.IP, Port: op.A.N}
				w.Net.SetName(akey(src.IP, src.Port), fmt.Sprintf("%s:%d", p.Spec.ID, op.A.N))
			}
			if w.Real[op.A.Target] != nil {
				w.e2eMu.Lock()
				w.PeerProbes[fmt.Sprintf("%s/%d", p.Spec.ID, op.ID)] = &peerProbe{T: w.K.Now(), Target: op.A.Target, From: ustr(src), Data: payload, Expect: !hasFlag(op, "unpermitted")}
				w.e2eMu.Unlock()
			}
			w.Net.SendUDP(src, dst, payload)
		default:
			if !p.doTCPOp(op) {
				Fatalf("peer op %q", op.Kind)
			}
		}
		return
	}
	switch op.Kind {
	case "wait":
	case "rotate":
		// the operator changes (A.S != "") or removes (A.S == "") a user's password; clients
		// named in A.Peers are told the new one, the others go on signing with the old one
		w.authMu.Lock()
		if op.A.S == "" {
			delete(w.users, op.A.User)
		} else {
			w.users[op.A.User] = op.A.S
		}
		w.authMu.Unlock()
		if !w.K.Free {
			w.Mon.mu.Lock()
			if op.A.S == "" {
				delete(w.Mon.users, op.A.User)
			} else {
				w.Mon.users[op.A.User] = op.A.S
			}
			w.Mon.mu.Unlock()
		}
		for _, id := range op.A.Peers {
			if c := w.Clients[id]; c != nil && op.A.S != "" {
				c.mu.Lock()
				c.Spec.Pass = op.A.S
				c.mu.Unlock()
			}
		}
	case "srv_close":
		w.closeServer()
	default:
		w.execExtra(op)
	}
}

func (w *SrvWorld) closeServer() {
	if w.closedSrv {
		return
	}
	w.closedSrv = true
	w.Mon.mu.Lock()
	if !w.Mon.serverClosed {
		w.Mon.serverClosedAt = w.K.Now()
	}
	w.Mon.serverClosed = true
	w.Mon.mu.Unlock()
	w.lib("server-close", func() {
		if w.Srv != nil {
			_ = w.Srv.Close()
		}
		if w.Mini != nil {
			w.Mini.Close()
		}
	})
}

func (w *SrvWorld) finish() {
	if len(w.Real) > 0 {
		w.checkE2E()
		w.checkE2ETCP()
		for _, rc := range w.realClients() {
			w.closeRealTCP(rc)
			w.e2eMu.Lock()
			relay, cli, closed := rc.Relay, rc.Cli, rc.Closed
			w.e2eMu.Unlock()
			w.lib("close-real", func() {
				if relay != nil && !closed {
					_ = relay.Close()
				}
				if cli != nil {
					cli.Close()
				}
			})
		}
	}
	w.closeServer()
	// "once the server has been closed nothing remains": judged before the harness closes its
	// own endpoints (a client that hangs up would make the server clean up after all)
	w.K.At(w.K.Now()+5e9, "after-server-close", w.afterServerClose)
}

func (w *SrvWorld) afterServerClose() {
	if w.K.Parked() > 0 || w.LibPending() > 0 {
		w.finalTries++
		if w.finalTries < 2000 {
			w.K.At(w.K.Now()+30e9, "after-server-close", w.afterServerClose)
			return
		}
	}
	for _, s := range w.Net.OpenSockets() {
		switch s.Role {
		case "relay", "relay-out", "listener", "listener-conn", "relay-conn":
			w.K.Violate(&Violation{Property: "C15", Class: "open-after-server-close", Key: kv("kind", s.Kind+":"+s.Role),
				Detail: "socket " + s.Kind + " " + s.Role + " " + s.Addr + " remote " + s.Remote + " is still open 5 s after Server.Close returned"})
		}
	}
	if !w.K.Free {
		w.checkStreams()
	}
	for _, rc := range w.realClients() {
		w.e2eMu.Lock()
		rs, rt := rc.sock, rc.tconn
		w.e2eMu.Unlock()
		if rs != nil {
			w.lib("close-client", func() { _ = rs.Close() })
		}
		if rt != nil {
			w.lib("close-client", func() { _ = rt.Close() })
		}
	}
	// close every harness-owned endpoint so that only library leaks remain
	for _, p := range w.peersInOrder() {
		if p.ln != nil {
			pl := p.ln
			w.lib("close-peer", func() { _ = pl.Close() })
		}
		p.mu.Lock()
		var open []*TCPConn
		for _, pc := range p.Conns {
			if !pc.Closed {
				open = append(open, pc.Conn)
			}
		}
		p.mu.Unlock()
		for _, c := range open {
			_ = c.closeHow(false)
		}
	}
	for _, c := range w.clientsInOrder() {
		c.mu.Lock()
		var open []*TCPConn
		for _, d := range c.Data {
			if d.Up && !d.Closed {
				open = append(open, d.Conn)
			}
		}
		c.mu.Unlock()
		for _, d := range open {
			_ = d.closeHow(false)
		}
	}
	for _, c := range w.clientsInOrder() {
		if c.sock != nil {
			c.sock.SetHandler(nil)
			cs := c.sock
			w.lib("close-client", func() { _ = cs.Close() })
		}
		c.mu.Lock()
		cc, up := c.conn, c.connUp
		c.mu.Unlock()
		if cc != nil && up {
			w.lib("close-client", func() { _ = cc.Close() })
		}
	}
	for _, p := range w.peersInOrder() {
		ps := p.sock
		w.lib("close-peer", func() { _ = ps.Close() })
	}
	w.finalTries = 0
	w.K.At(w.K.Now()+5e9, "final", w.final)
}

// peersInOrder / clientsInOrder: the scripted actors in the order of the plan (what is closed in
// this order is part of the run's log; a map's order is not reproducible).
func (w *SrvWorld) peersInOrder() []*PeerActor {
	var out []*PeerActor
	for _, p := range w.P.Peers {
		if a := w.Peers[p.ID]; a != nil {
			out = append(out, a)
		}
	}
	return out
}

func (w *SrvWorld) clientsInOrder() []*RawClient {
	var out []*RawClient
	for _, c := range w.P.Clients {
		if a := w.Clients[c.ID]; a != nil {
			out = append(out, a)
		}
	}
	return out
}

// final ends the run once no goroutine is parked any more (a stall may outlast the plan).
func (w *SrvWorld) final() {
	if w.K.Parked() > 0 || w.LibPending() > 0 {
		w.finalTries++
		if w.finalTries < 2000 {
			w.K.At(w.K.Now()+30e9, "final", w.final)
			return
		}
	}
	w.done = true
	w.K.Finish()
}

func (w *SrvWorld) allocCount() int {
	if (w.Srv == nil && w.Mini == nil) || w.closedSrv {
		return -1
	}
	n := -1
	w.inspect(func() {
		if w.Mini != nil {
			n = w.Mini.am.AllocationCount()
		} else {
			n = w.Srv.AllocationCount()
		}
	})
	return n
}

// Idle is the driver's idle hook.
func (w *SrvWorld) Idle(now int64) {
	if w.LibPending() > 0 {
		return
	}
	if held, _ := lockState(); len(held) > 0 {
		// every handler has returned and nobody is parked, yet a lock is held
		if !w.lockLeakReported {
			w.lockLeakReported = true
			for _, h := range held {
				for _, pr := range []string{"C18", "C16"} {
					w.K.Violate(&Violation{Property: pr, Class: "lock-held-at-idle", Key: kv("site", h), Detail: "at an idle point (all handlers returned, nobody parked) a lock is still held, acquired at " + h})
				}
			}
		}
		w.Mon.Idle(now, -1, w.lossFree && !w.K.Stats.HasFault("stream:window-full"))
		return
	}
	// (a writer that found the client's window shut drops or delays what it relays: lossy)
	w.Mon.Idle(now, w.allocCount(), w.lossFree && !w.K.Stats.HasFault("stream:window-full"))
	if len(w.Real) > 0 {
		w.checkReleased(now)
	}
}

// Run drives the world to completion and returns the reason the driver stopped.
func (w *SrvWorld) Run(maxSteps int) string {
	w.Start()
	w.K.At(w.K.Now()+1e6, "begin", func() {
		if w.K.Free {
			<-w.started // the only ordering between set-up and the first operation in free-running mode
		}
		w.prevIssue = w.K.Now()
		w.scheduleNext()
	})
	reason := w.K.Drive(maxSteps, w.Idle, func() bool { return w.done })
	if !w.K.Free && reason == "stopped" {
		// (a run cut short by the step cap has not been torn down: nothing about its end is judged)
		w.Mon.Final(w.K.Now())
	}
	close(w.inspectReq)
	return reason
}

// libGoroutines counts goroutines that still have pion/turn frames (leak oracle).
func libGoroutines() (int, string) {
	// only goroutines of the current bubble count: an earlier run of this process that was
	// cut short may have left its own behind
	me := make([]byte, 256)
	me = me[:runtime.Stack(me, false)]
	bubble := ""
	if i := strings.Index(string(me), "synctest bubble "); i >= 0 {
		j := strings.IndexAny(string(me[i:]), "]\n")
		if j > 0 {
			bubble = string(me[i : i+j])
		}
	}
	buf := make([]byte, 1<<20)
	n := runtime.Stack(buf, true)
	cnt := 0
	var first string
	for _, g := range strings.Split(string(buf[:n]), "\n\n") {
		if bubble != "" && !strings.Contains(g[:minInt(len(g), 160)], bubble+"]") {
			continue
		}
		if strings.Contains(g, "github.com/pion/turn/v5.") || strings.Contains(g, "github.com/pion/turn/v5/internal/") {
			if strings.Contains(g, "verifsim") && !strings.Contains(g, "pion/turn/v5/internal/") && !strings.Contains(g, "pion/turn/v5.(") {
				continue
			}
			cnt++
			if first == "" {
				first = g
			}
		}
	}
	return cnt, first
}

func minInt(a, b int) int {
	if a < b {
		return a
	}
	return b
}

func (w *SrvWorld) execExtra(op *Op) { Fatalf("unknown op kind %q for actor %q", op.Kind, op.Actor) }
