package sim

import (
	"fmt"
	"net"
	"sort"
	"strings"
	"sync"
	"testing"
	"time"

	"github.com/pion/stun/v3"
	"github.com/pion/turn/v5"
	"github.com/pion/turn/v5/internal/client"
)

// CliWorld (W-cli): the real turn.Client on a simnet socket against a scripted TURN server.
type CliWorld struct {
	K   *Kernel
	P   *Plan
	Net *Net
	LF  *SimLoggerFactory

	mu       sync.Mutex
	started  chan struct{}
	Cli      *turn.Client
	cliSock  *UDPSock
	stream   bool     // the client speaks TURN over a stream (its Conn is a STUNConn over simnet TCP)
	cliConn  *TCPConn // client end of that stream
	srvInMu  sync.Mutex
	sharedAddr *net.UDPAddr // the one address object of an application that reuses it
	cliOut, cliIn []byte // not yet deframed bytes written / read by the client on the stream
	cliOutBad bool
	cliFrames int
	srvConn  *TCPConn // scripted server end
	srvIn    []byte
	cliAddr  *net.UDPAddr
	SrvAddr  *net.UDPAddr
	srvSock  *UDPSock
	relay    net.PacketConn
	relayErr error

	// scripted server state
	srvLog    []srvRec
	txnIndex  map[string]map[[12]byte]int // method -> tid -> n-th distinct
	txnCount  map[string]int
	attempts  map[[12]byte]int
	respSeq   int
	resp      map[int]*respRec // response id -> record
	nonceSeq  int
	curNonce  string
	perms     map[string]bool          // ip -> CreatePermission success delivered... (sent)
	chans     map[uint16]string        // confirmed bindings number -> peer
	relayAddr *net.UDPAddr

	// observations at the client socket
	tx     map[[12]byte][]int64 // transmission instants per transaction id
	rx     []rxRec
	wire   []wireRec // everything the client put on the wire, in order

	calls   []*callRec
	libN    int
	opIdx   int
	prev    int64
	done    bool
	closed  bool
	closedAt int64
	tries   int
	readers int
	injected []injRec // payloads the scripted server relayed toward the client
	reads    []readRec
	tcpAlloc      *client.TCPAllocation
	deadlines     []dlRec
	relayClosed   bool
	relayClosedAt int64
	chanSeen      map[uint16]string
	chanSeenAt    map[uint16]int64
	lostReported  bool
	peerChan      map[string]uint16
	permDelivered map[string]int64
	chanDelivered map[uint16]chanDel
}

type srvRec struct {
	T      int64
	Method string
	Class  string
	TID    [12]byte
	N      int // n-th distinct transaction of the method
	K      int // k-th transmission
}

type respRec struct {
	ID        int
	TID       [12]byte // transaction id it was sent with
	ForTID    [12]byte // the request it answers
	SentAt    int64
	Delivered int64
	OK        bool
	Code      int
	PermIPs   []string
	Chan      uint16
	ChanPeer  string
}

type rxRec struct {
	T      int64
	TID    [12]byte
	RespID int
	IsResp bool
}

type wireRec struct {
	T      int64
	What   string // send-ind | chandata | createperm-req | chanbind-req | ...
	Peer   string
	Chan   uint16
	Data   []byte
	TID    [12]byte
}

type callRec struct {
	Op     *Op
	Kind   string
	TStart int64
	TEnd   int64
	Done   bool
	Err    error
	Addr   net.Addr
	N      int
	Data   []byte
	From   net.Addr
	marked bool
	probed bool
}

type injRec struct {
	Sure bool // the client must accept it: a Data indication, or ChannelData on a number whose ChannelBind the server has received and accepts
	T    int64
	Peer string
	Data []byte
	Chan uint16
	Known bool
}

type readRec struct {
	T    int64
	Data []byte
	From string
	Err  error
}

func NewCliWorld(k *Kernel, p *Plan) *CliWorld {
	w := &CliWorld{K: k, P: p, txnIndex: map[string]map[[12]byte]int{}, txnCount: map[string]int{}, attempts: map[[12]byte]int{},
		resp: map[int]*respRec{}, tx: map[[12]byte][]int64{}, perms: map[string]bool{}, chans: map[uint16]string{},
		permDelivered: map[string]int64{}, chanDelivered: map[uint16]chanDel{}}
	w.Net = NewNet(k)
	if !k.Free {
		w.Net.Obs = w // free-running race pass: no observer (its lock would order the library's goroutines)
	}
	w.LF = NewLoggerFactory(k, p.Expect != nil)
	w.started = make(chan struct{})
	return w
}

// ---- Observer: only the client's own socket matters here

func (w *CliWorld) UDPReadCall(s *UDPSock) {}
func (w *CliWorld) UDPRead(s *UDPSock, d *Dgram, n int) {
	if s.Role != "client" {
		return
	}
	now := w.K.Now()
	w.mu.Lock()
	defer w.mu.Unlock()
	w.clientGot(d.Payload, now)
}

// clientGot (under w.mu): one message handed to the client by its transport.
func (w *CliWorld) clientGot(payload []byte, now int64) {
	d := &Dgram{Payload: payload}
	if msg, ok := decodeSTUN(d.Payload); ok && (msg.Type.Class == stun.ClassSuccessResponse || msg.Type.Class == stun.ClassErrorResponse) {
		id := 0
		if a, ok := getXORAddr(msg, stun.AttrXORMappedAddress); ok && msg.Type.Method == stun.MethodBinding {
			id = a.Port
		} else if v, err := msg.Get(stun.AttrSoftware); err == nil {
			fmt.Sscanf(string(v), "r%d", &id)
		}
		if r := w.resp[id]; r != nil && r.Delivered == 0 {
			r.Delivered = now
			w.relayDelivered(r, now)
		}
		w.rx = append(w.rx, rxRec{T: now, TID: msg.TransactionID, RespID: id, IsResp: true})
	}
}
func (w *CliWorld) UDPWrite(s *UDPSock, to *net.UDPAddr, b []byte) {
	if s.Role != "client" {
		return
	}
	now := w.K.Now()
	w.mu.Lock()
	defer w.mu.Unlock()
	w.clientSent(b, now)
}

// clientSent (under w.mu): one message the client put on the wire.
func (w *CliWorld) clientSent(b []byte, now int64) {
	rec := wireRec{T: now, What: classifyWire(b)}
	if msg, ok := decodeSTUN(b); ok {
		rec.TID = msg.TransactionID
		if msg.Type.Class == stun.ClassRequest {
			w.tx[msg.TransactionID] = append(w.tx[msg.TransactionID], now)
		}
		if p, ok := getXORAddr(msg, attrXORPeerAddress); ok {
			rec.Peer = ustr(p)
		}
		if n, ok := getChannel(msg); ok {
			rec.Chan = n
		}
		if d, err := msg.Get(attrData); err == nil {
			rec.Data = append([]byte(nil), d...)
		}
		if v, ok := getU32(msg, attrLifetime); ok && v == 0 && msg.Type.Method == stun.MethodRefresh && !w.relayClosed {
			// the relayed socket is being closed (by the application, or by the library itself
			// after a ChannelBind 400)
			w.relayClosed = true
			w.relayClosedAt = now
		}
	} else if n, data, ok := parseChannelData(b); ok {
		rec.Chan = n
		rec.Data = append([]byte(nil), data...)
	}
	w.wire = append(w.wire, rec)
	w.relayWire(&rec, now)
}
func (w *CliWorld) UDPDeliverScripted(s *UDPSock, d *Dgram) {}
func (w *CliWorld) SockOpen(info *SockInfo)                {}
func (w *CliWorld) SockClose(info *SockInfo)               {}

// The client speaks TURN over a stream: what it writes must be a sequence of whole frames
// (STUN messages, ChannelData padded to four bytes - RFC 5766 section 11.5), however it
// splits them into writes; the frames are then judged like datagrams. What it reads is
// deframed the same way: a response counts as delivered when its last byte has been read.
func (w *CliWorld) TCPWrite(c *TCPConn, b []byte) {
	if !w.stream || c != w.cliConn {
		return
	}
	now := w.K.Now()
	w.mu.Lock()
	defer w.mu.Unlock()
	if w.cliOutBad {
		return
	}
	w.cliOut = append(w.cliOut, b...)
	for len(w.cliOut) >= 4 {
		n, _ := refFrameLen(w.cliOut)
		if !validFrameStart(w.cliOut) {
			w.cliOutBad = true
			w.viol("C13", "client-stream-misframed", nil, "the client's byte stream toward the server stops being a sequence of STUN / padded ChannelData frames at %x (after %d whole frames)", w.cliOut[:min(len(w.cliOut), 12)], w.cliFrames)
			return
		}
		if n > len(w.cliOut) {
			return
		}
		w.cliFrames++
		w.clientSent(append([]byte(nil), w.cliOut[:n]...), now)
		w.cliOut = w.cliOut[n:]
	}
}
func (w *CliWorld) TCPRead(c *TCPConn, b []byte) {
	if !w.stream || c != w.cliConn {
		return
	}
	now := w.K.Now()
	w.mu.Lock()
	defer w.mu.Unlock()
	w.cliIn = append(w.cliIn, b...)
	for len(w.cliIn) >= 4 {
		n, _ := refFrameLen(w.cliIn)
		if !validFrameStart(w.cliIn) {
			w.cliIn = nil // hostile bytes from the scripted server: the reference gives up too
			return
		}
		if n > len(w.cliIn) {
			return
		}
		w.clientGot(append([]byte(nil), w.cliIn[:n]...), now)
		w.cliIn = w.cliIn[n:]
	}
}

// validFrameStart: the first bytes can begin a STUN message (two zero bits, 4-aligned length,
// the magic cookie once eight bytes are there) or a ChannelData frame (number 0x4000-0x7FFF).
func validFrameStart(b []byte) bool {
	if len(b) < 4 {
		return true
	}
	switch b[0] & 0xC0 {
	case 0x00:
		if b[3]&3 != 0 {
			return false
		}
		if len(b) >= 8 && !(b[4] == 0x21 && b[5] == 0x12 && b[6] == 0xA4 && b[7] == 0x42) {
			return false
		}
		return true
	case 0x40:
		return true
	}
	return false
}
func (w *CliWorld) TCPReadCall(c *TCPConn)                 {}
func (w *CliWorld) TCPAccepted(l *TCPListener, c *TCPConn) {}
func (w *CliWorld) TCPClosed(c *TCPConn, how string)       {}
func (w *CliWorld) TCPReadEnd(c *TCPConn, err error)       {}
func (w *CliWorld) IOFaulted(role, op, addr string)        {}

// hostileStream: the client speaks TURN over a stream and the plan feeds it hostile bytes.
func (w *CliWorld) hostileStream() bool {
	return w.stream && strings.HasPrefix(w.P.Flavor, "hostile")
}

func (w *CliWorld) viol(prop, class string, key map[string]string, format string, args ...any) {
	w.K.Violate(&Violation{Property: prop, Class: class, Key: key, Detail: fmt.Sprintf(format, args...)})
}

func (w *CliWorld) lib(f func()) {
	if w.K.Free {
		go f() // nothing shared with the harness: no counter, no lock
		return
	}
	w.mu.Lock()
	w.libN++
	w.mu.Unlock()
	go func() {
		defer func() {
			w.mu.Lock()
			w.libN--
			w.mu.Unlock()
		}()
		f()
	}()
}

func (w *CliWorld) pending() int {
	w.mu.Lock()
	defer w.mu.Unlock()
	return w.libN
}

func (w *CliWorld) start() {
	cfg := w.P.Cfg
	w.SrvAddr = &net.UDPAddr{IP: net.ParseIP("10.0.0.1"), Port: 3478}
	w.cliAddr = &net.UDPAddr{IP: net.ParseIP("10.0.1.1"), Port: 4000}
	w.relayAddr = &net.UDPAddr{IP: net.ParseIP("10.0.0.2"), Port: 50000}
	w.Net.ServerIPs["10.0.0.1"] = true
	w.Net.SetName("10.0.0.1:3478", "srv")
	w.Net.SetName("10.0.1.1:4000", "c1")
	w.curNonce = "nonce-0"
	ss, err := w.Net.ListenUDP("scriptsrv", "srv", w.SrvAddr.IP, w.SrvAddr.Port)
	if err != nil {
		Fatalf("scriptsrv: %v", err)
	}
	ss.SetHandler(w.onServerDatagram)
	w.srvSock = ss
	var cs net.PacketConn
	if cfg.Extra["stream"] == 1 {
		// one established stream between the client and the scripted server
		w.stream = true
		cc, sc := w.Net.newConnPair("client", "scriptsrv", &net.TCPAddr{IP: w.cliAddr.IP, Port: w.cliAddr.Port}, &net.TCPAddr{IP: w.SrvAddr.IP, Port: w.SrvAddr.Port})
		w.cliConn, w.srvConn = cc, sc
		sc.SetScripted(func(_ *TCPConn, b []byte) {
			// (arrival events run on goroutines of their own in the free-running race pass)
			w.srvInMu.Lock()
			w.srvIn = append(w.srvIn, b...)
			var frames [][]byte
			for {
				n, ok := refFrameLen(w.srvIn)
				if !ok || n > len(w.srvIn) {
					break
				}
				frames = append(frames, append([]byte(nil), w.srvIn[:n]...))
				w.srvIn = w.srvIn[n:]
			}
			w.srvInMu.Unlock()
			for _, frame := range frames {
				w.onServerDatagram(&Dgram{From: w.cliAddr, To: w.SrvAddr, Payload: frame})
			}
		}, nil)
		cs = turn.NewSTUNConn(cc)
	} else {
		us, err := w.Net.ListenUDP("client", "c1", w.cliAddr.IP, w.cliAddr.Port)
		if err != nil {
			Fatalf("client sock: %v", err)
		}
		w.cliSock = us
		cs = us
	}
	rto := time.Duration(cfg.RTOms) * time.Millisecond
	w.lib(func() {
		c, err := turn.NewClient(&turn.ClientConfig{
			STUNServerAddr: "10.0.0.1:3478", TURNServerAddr: "10.0.0.1:3478", Username: "u1", Password: "pw-one", Realm: cfg.Realm,
			RTO: rto, Conn: cs, LoggerFactory: w.LF,
			Net: &SimTransport{N: w.Net, Role: "client-data", Owner: "c1", IP4: w.cliAddr.IP, IP6: net.ParseIP("fd00:1::1")},
			PermissionRefreshInterval: time.Duration(cfg.Extra["perm_refresh_ms"]) * time.Millisecond, // (0: the library's 2 minutes)
		})
		if err != nil {
			Fatalf("NewClient: %v", err)
		}
		if cfg.Extra["manual_inbound"] != 1 {
			if err := c.Listen(); err != nil {
				Fatalf("Listen: %v", err)
			}
		}
		w.mu.Lock()
		w.Cli = c
		w.mu.Unlock()
		close(w.started)
	})
}

// srvSend: what the scripted server (or a stranger) sends to the client - a datagram, or bytes
// on the one stream when the client speaks TURN over TCP.
func (w *CliWorld) srvSend(from, to *net.UDPAddr, b []byte) {
	if w.stream {
		_, _ = w.srvConn.Write(b)
		return
	}
	w.Net.SendUDP(from, to, b)
}

// ---- scripted server

func (w *CliWorld) reaction(method string, n, k int) *Reaction {
	for i := range w.P.Reactions {
		r := &w.P.Reactions[i]
		if (r.Method == "" || r.Method == method) && (r.Txn == 0 || r.Txn == n) && (r.Attempt == 0 || r.Attempt == k) {
			return r
		}
	}
	return nil
}

func (w *CliWorld) onServerDatagram(d *Dgram) {
	now := w.K.Now()
	msg, ok := decodeSTUN(d.Payload)
	if !ok {
		if num, data, ok := parseChannelData(d.Payload); ok {
			_ = num
			_ = data
		}
		return
	}
	method := methodName(msg.Type.Method)
	if msg.Type.Class != stun.ClassRequest {
		return
	}
	w.mu.Lock()
	if w.txnIndex[method] == nil {
		w.txnIndex[method] = map[[12]byte]int{}
	}
	n, seen := w.txnIndex[method][msg.TransactionID]
	if !seen {
		w.txnCount[method]++
		n = w.txnCount[method]
		w.txnIndex[method][msg.TransactionID] = n
	}
	w.attempts[msg.TransactionID]++
	k := w.attempts[msg.TransactionID]
	w.srvLog = append(w.srvLog, srvRec{T: now, Method: method, Class: "req", TID: msg.TransactionID, N: n, K: k})
	w.mu.Unlock()
	do, delay := "ok", int64(0)
	if r := w.reaction(method, n, k); r != nil {
		do, delay = r.Do, r.DelayNS
	}
	w.K.Stats.Probe("srv_" + strings.SplitN(do, ":", 2)[0])
	if do == "drop" {
		return
	}
	if do == "stranger" {
		// somebody else who has seen the request answers it first, from an address of his own
		// (transactions match by identifier); the server's answer follows
		do = "ok"
		if !w.stream {
			if raw := w.buildResponse(msg, method, do, now); raw != nil {
				w.K.Stats.Probe("srv_stranger_response")
				w.Net.SendUDP(mustUDPAddr("10.0.3.9:7777"), d.From, raw)
			}
			if delay < 100*ms {
				delay = 100 * ms
			}
		}
	}
	copies := 1
	if do == "dup" {
		copies = 2
	}
	for c := 0; c < copies; c++ {
		raw := w.buildResponse(msg, method, do, now)
		if raw == nil {
			return
		}
		dd := delay + int64(c)*1000
		if dd == 0 {
			w.srvSend(w.SrvAddr, d.From, raw)
		} else {
			to := d.From
			w.K.After(dd, fmt.Sprintf("srvresp:%s#%d.%d.%d", method, n, k, c), func() { w.srvSend(w.SrvAddr, to, raw) })
		}
	}
}

func (w *CliWorld) buildResponse(req *stun.Message, method, do string, now int64) []byte {
	w.mu.Lock()
	defer w.mu.Unlock()
	w.respSeq++
	id := 20000 + w.respSeq
	tid := req.TransactionID
	if do == "wrongtid" {
		tid[0] ^= 0xFF
		tid[5] ^= 0x55
	}
	rr := &respRec{ID: id, TID: tid, ForTID: req.TransactionID, SentAt: now, OK: true}
	w.resp[id] = rr
	cls := stun.ClassSuccessResponse
	code := 0
	if strings.HasPrefix(do, "err:") {
		fmt.Sscanf(do, "err:%d", &code)
		cls = stun.ClassErrorResponse
	}
	hasMI := req.Contains(stun.AttrMessageIntegrity)
	if (method == "allocate" || method == "refresh" || method == "createperm" || method == "chanbind" || method == "connect") && !hasMI && do != "wrongtid" {
		cls, code = stun.ClassErrorResponse, 401
	}
	if do == "stale" {
		cls, code = stun.ClassErrorResponse, 438
		w.nonceSeq++
		w.curNonce = fmt.Sprintf("nonce-%d", w.nonceSeq)
	}
	rr.OK = cls == stun.ClassSuccessResponse
	rr.Code = code
	setters := []stun.Setter{stun.NewTransactionIDSetter(tid), stun.NewType(req.Type.Method, cls)}
	setters = append(setters, stun.NewSoftware(fmt.Sprintf("r%d", id)))
	if cls == stun.ClassErrorResponse {
		setters = append(setters, stun.ErrorCodeAttribute{Code: stun.ErrorCode(code), Reason: []byte("scripted")})
		if code == 401 || code == 438 {
			setters = append(setters, stun.NewNonce(w.curNonce), stun.NewRealm(w.P.Cfg.Realm))
		}
	} else {
		switch method {
		case "binding":
			setters = append(setters, &stun.XORMappedAddress{IP: w.cliAddr.IP, Port: id})
		case "allocate":
			life := uint32(w.P.Cfg.AllocLifeS)
			if life == 0 {
				life = 600
			}
			setters = append(setters, xorAddr{attrXORRelayedAddr, w.relayAddr.IP, w.relayAddr.Port}, aLifetime(life), &stun.XORMappedAddress{IP: w.cliAddr.IP, Port: w.cliAddr.Port})
		case "refresh":
			life := uint32(w.P.Cfg.AllocLifeS)
			if life == 0 {
				life = 600
			}
			if v, ok := getU32(req, attrLifetime); ok && v == 0 {
				life = 0
			}
			setters = append(setters, aLifetime(life))
		case "createperm":
			peers, _ := allXORAddrs(req, attrXORPeerAddress)
			for _, p := range peers {
				w.perms[p.IP.String()] = true
				rr.PermIPs = append(rr.PermIPs, p.IP.String())
			}
		case "chanbind":
			n, ok1 := getChannel(req)
			p, ok2 := getXORAddr(req, attrXORPeerAddress)
			if ok1 && ok2 {
				w.chans[n] = ustr(p)
				w.perms[p.IP.String()] = true
				rr.PermIPs = append(rr.PermIPs, p.IP.String())
				rr.Chan, rr.ChanPeer = n, ustr(p)
			}
		}
	}
	m, err := stun.Build(setters...)
	if err != nil {
		Fatalf("scriptsrv build: %v", err)
	}
	return append([]byte(nil), m.Raw...)
}

// ---- ops

func (w *CliWorld) scheduleNext() {
	if w.opIdx >= len(w.P.Ops) {
		w.K.At(w.K.Now()+w.P.QuietNS+sec, "end-of-plan", w.finish)
		return
	}
	op := &w.P.Ops[w.opIdx]
	w.opIdx++
	at := w.prev + freeGap(w.K, w.P, w.opIdx-1, op.At.GapNS)
	if at < w.K.Now() {
		at = w.K.Now()
	}
	w.K.At(at, fmt.Sprintf("op:%d:%s:%s", op.ID, op.Actor, op.Kind), func() {
		w.prev = w.K.Now()
		w.K.Stats.Op(op.Kind)
		w.K.OpIssued(op.ID)
		w.exec(op)
		w.scheduleNext()
	})
}

func (w *CliWorld) call(op *Op, f func(c *callRec)) {
	if w.K.Free {
		rec := &callRec{Op: op, Kind: op.Kind}
		go f(rec) // results are not judged in the race pass
		return
	}
	rec := &callRec{Op: op, Kind: op.Kind, TStart: w.K.Now()}
	w.mu.Lock()
	w.calls = append(w.calls, rec)
	w.mu.Unlock()
	w.lib(func() {
		f(rec)
		w.mu.Lock()
		rec.TEnd = w.K.Now()
		rec.Done = true
		w.mu.Unlock()
	})
}

func (w *CliWorld) exec(op *Op) {
	w.mu.Lock()
	cli := w.Cli
	w.mu.Unlock()
	if cli == nil {
		return
	}
	switch op.Kind {
	case "bind_txn":
		w.call(op, func(c *callRec) { c.Addr, c.Err = cli.SendBindingRequestTo(w.SrvAddr) })
	case "client_close":
		w.mu.Lock()
		w.closed = true
		w.closedAt = w.K.Now()
		w.mu.Unlock()
		w.call(op, func(c *callRec) { cli.Close() })
	case "wait":
	default:
		if !w.execRelay(op, cli) {
			Fatalf("cli world: op %q", op.Kind)
		}
	}
}

func (w *CliWorld) finish() {
	if !w.K.Free {
		w.checkTransactions(true)
		w.checkRelay(true)
	}
	w.mu.Lock()
	cli, relay, ta := w.Cli, w.relay, w.tcpAlloc
	w.mu.Unlock()
	w.lib(func() {
		if relay != nil {
			_ = relay.Close()
		}
		if ta != nil {
			_ = ta.Close()
		}
		if cli != nil {
			cli.Close()
		}
		if w.cliSock != nil {
			_ = w.cliSock.Close()
		}
		if w.cliConn != nil {
			_ = w.cliConn.Close()
		}
	})
	w.srvSock.SetHandler(nil)
	ss := w.srvSock
	w.lib(func() { _ = ss.Close() })
	w.K.At(w.K.Now()+20*sec, "final", w.final)
}

func (w *CliWorld) final() {
	if w.K.Free {
		w.done = true
		w.K.Finish()
		return
	}
	if (w.K.Parked() > 0 || w.pending() > 0) && w.tries < 400 {
		w.tries++
		w.K.At(w.K.Now()+30*sec, "final", w.final)
		return
	}
	if n := w.pending(); n > 0 {
		w.viol("C12", "no-completion", kv("when", "end"), "%d application call(s) into the client have still not returned %d s after the client and its socket were closed", n, 20+30*w.tries)
	}
	w.done = true
}

// rtoSchedule returns the transmission offsets and the failure instant of a transaction.
func rtoSchedule(rtoNS int64) (offs []int64, fail int64) {
	iv := rtoNS
	t := int64(0)
	for i := 0; i < 7; i++ {
		offs = append(offs, t)
		t += iv
		iv *= 2
		if iv > 1600*ms {
			iv = 1600 * ms
		}
	}
	return offs, t
}

// checkTransactions: the C12 oracle, evaluated at idle points and at the end.
func (w *CliWorld) checkTransactions(final bool) {
	if w.hostileStream() {
		return // bytes that cannot start a frame end a stream for good: the timetable is judged in the other plans
	}
	w.mu.Lock()
	defer w.mu.Unlock()
	if len(w.K.StallIntervals()) > 0 {
		return // exact timetable is judged in stall-free plans only
	}
	rto := int64(w.P.Cfg.RTOms) * ms
	if rto == 0 {
		rto = 200 * ms
	}
	offs, failAt := rtoSchedule(rto)
	now := w.K.Now()
	ioFaulty := len(w.P.IOFaults) > 0
	for _, c := range w.calls {
		if c.Kind != "bind_txn" || c.judged() {
			continue
		}
		// the transaction of this call: its first transmission happens at the call instant
		var tid [12]byte
		found := false
		for t, times := range w.tx {
			if len(times) > 0 && times[0] == c.TStart {
				if found {
					found = false // ambiguous (two calls at one instant): not judged
					break
				}
				tid, found = t, true
			}
		}
		if !found {
			if c.Done && !ioFaulty && !w.closed {
				// no transmission at all although the call returned
			}
			continue
		}
		times := w.tx[tid]
		// (a) timetable and count
		if len(times) > 7 {
			c.mark()
			w.viol("C12", "too-many-transmissions", kv("n", itoa(len(times))), "transaction sent %d times (limit 7)", len(times))
			continue
		}
		for i, t := range times {
			if t-c.TStart != offs[i] {
				c.mark()
				w.viol("C12", "wrong-timetable", kv("k", itoa(i+1)), "transmission %d at +%d ns, expected +%d ns (RTO %d ms)", i+1, t-c.TStart, offs[i], rto/ms)
				break
			}
		}
		if c.marked {
			continue
		}
		// first matching response delivered to the client
		var first *rxRec
		for i := range w.rx {
			r := &w.rx[i]
			if r.IsResp && r.TID == tid && r.T >= c.TStart {
				first = r
				break
			}
		}
		deadline := c.TStart + failAt
		closedAt := int64(1) << 62
		if w.closed && w.closedAt >= c.TStart {
			closedAt = w.closedAt // Close only ends the transactions that exist at that moment
		}
		if !c.Done {
			lim := deadline
			if first != nil && first.T < lim {
				lim = first.T
			}
			if closedAt < lim {
				lim = closedAt
			}
			if now > lim+ms && (final || now > lim+sec) {
				c.mark()
				w.viol("C12", "no-completion", kv("when", "deadline"), "transaction started at %d has not completed %d ns after it had to (response/failure/close at %d)", c.TStart, now-lim, lim)
			}
			continue
		}
		if ioFaulty {
			// a write error ends the transaction at that transmission: only residue is judged
			c.mark()
			continue
		}
		switch {
		case first != nil && first.T < deadline && first.T <= closedAt:
			// must be the success with exactly that response, at that instant
			if rr := w.resp[first.RespID]; rr != nil && !rr.OK {
				// an error response completes the transaction too; the API reports an error
				if c.TEnd != first.T {
					c.mark()
					w.viol("C12", "wrong-timetable", kv("k", "completion"), "error response delivered at +%d ns, call returned at +%d ns", first.T-c.TStart, c.TEnd-c.TStart)
				}
			} else if c.Err != nil {
				c.mark()
				w.viol("C12", "wrong-result", kv("want", "response"), "a matching response was delivered at +%d ns but the call returned error %v at +%d ns", first.T-c.TStart, c.Err, c.TEnd-c.TStart)
			} else if ua, _ := c.Addr.(*net.UDPAddr); ua == nil || ua.Port != first.RespID {
				c.mark()
				w.viol("C12", "foreign-response", nil, "the call returned response #%v, the first matching response delivered was #%d", c.Addr, first.RespID)
			} else if c.TEnd != first.T {
				c.mark()
				w.viol("C12", "wrong-timetable", kv("k", "completion"), "response delivered at +%d ns, call returned at +%d ns", first.T-c.TStart, c.TEnd-c.TStart)
			}
		case closedAt < deadline && (first == nil || first.T > closedAt):
			if c.Err == nil {
				c.mark()
				w.viol("C12", "wrong-result", kv("want", "closed"), "the client was closed at +%d ns without a response, yet the call returned success", closedAt-c.TStart)
			} else if c.TEnd != closedAt {
				c.mark()
				w.viol("C12", "wrong-timetable", kv("k", "close"), "client closed at +%d ns, call returned at +%d ns", closedAt-c.TStart, c.TEnd-c.TStart)
			}
		case first == nil || first.T > deadline:
			if c.Err == nil {
				c.mark()
				if first == nil {
					w.viol("C12", "foreign-response", nil, "no response with the transaction's id was ever delivered, yet the call returned %v", c.Addr)
				} else {
					w.viol("C12", "wrong-result", kv("want", "timeout"), "first matching response came after the failure instant, yet the call succeeded")
				}
			} else if c.TEnd != deadline {
				c.mark()
				w.viol("C12", "wrong-timetable", kv("k", "failure"), "call failed at +%d ns, expected failure at +%d ns (7 transmissions, RTO %d ms)", c.TEnd-c.TStart, failAt, rto/ms)
			} else if len(times) != 7 && closedAt > deadline {
				c.mark()
				w.viol("C12", "too-few-transmissions", kv("n", itoa(len(times))), "transaction failed after %d transmissions (7 expected)", len(times))
			}
		}
		// (c) nothing is sent after completion
		if c.Done && !c.marked {
			for _, t := range times {
				if t > c.TEnd {
					c.mark()
					w.viol("C12", "late-timer", nil, "a transmission at +%d ns after the transaction completed at +%d ns", t-c.TStart, c.TEnd-c.TStart)
					break
				}
			}
		}
		if final && c.Done {
			c.mark()
		}
	}
	if final && w.Cli != nil {
		inflight := 0
		for _, c := range w.calls {
			if !c.Done {
				inflight++
			}
		}
		size := -1
		w.K.Inspecting.Store(true)
		size = w.Cli.VerifTrMapSize()
		w.K.Inspecting.Store(false)
		if size > inflight+w.bgTransactions() {
			w.viol("C12", "table-residue", kv("cause", w.residueCause()), "transaction table holds %d entries, %d calls are in flight", size, inflight)
		}
	}
}

func (w *CliWorld) residueCause() string {
	if len(w.P.IOFaults) > 0 {
		return "write-error"
	}
	if w.closed {
		return "close"
	}
	return "other"
}

func (c *callRec) judged() bool { return c.marked }

// sortedTIDs is for deterministic iteration where needed.
func sortedTimes(m map[[12]byte][]int64) [][12]byte {
	var ks [][12]byte
	for k := range m {
		ks = append(ks, k)
	}
	sort.Slice(ks, func(i, j int) bool { return string(ks[i][:]) < string(ks[j][:]) })
	return ks
}

func (w *CliWorld) Run(maxSteps int) string {
	w.start()
	w.K.At(w.K.Now()+ms, "begin", func() {
		if w.K.Free {
			<-w.started // the only ordering between set-up and the first operation
		}
		w.prev = w.K.Now()
		w.scheduleNext()
	})
	return w.K.Drive(maxSteps, func(now int64) {
		if w.pendingSetup() {
			return
		}
		w.checkTransactions(false)
		w.checkRelay(false)
	}, func() bool { return w.done })
}

func (w *CliWorld) pendingSetup() bool {
	w.mu.Lock()
	defer w.mu.Unlock()
	return w.Cli == nil
}

func runCliWorld(t *testing.T, k *Kernel, p *Plan, rec *RunRecord) {
	w := NewCliWorld(k, p)
	reason := w.Run(maxStepsFor(p))
	if reason == "stopped" && !k.Free {
		held, waiting := lockState()
		for _, h := range held {
			k.Violate(&Violation{Property: "C18", Class: "lock-held-at-idle", Key: kv("site", h), Detail: "lock still held after the client was closed, acquired at " + h})
		}
		for _, wt := range waiting {
			k.Violate(&Violation{Property: "C18", Class: "deadlock", Key: kv("site", wt), Detail: "acquisition still blocked at the end of the run: " + wt})
		}
	}
	rec.LockSites = lockSites()
	fillRecord(rec, k, reason)
	w.mu.Lock()
	rec.Requests = len(w.srvLog)
	rec.States = len(w.calls)
	w.mu.Unlock()
}
