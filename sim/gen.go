package sim

import "fmt"

// Generate is a pure function (property, tier, seed, run index) -> plan.
func Generate(prop, tier string, seed uint64, run int) *Plan {
	r := NewRNG(Mix(seed, HashStr(prop), uint64(run)))
	p := &Plan{V: 1, Property: prop, Tier: tier, Seed: seed, Run: run}
	g := generators[prop]
	if g == nil {
		Fatalf("no generator for %s", prop)
	}
	g(p, r)
	for i := range p.Ops {
		p.Ops[i].ID = i + 1
	}
	return p
}

var generators = map[string]func(p *Plan, r *RNG){}

// ---- shared pieces

func baseSrvConfig(p *Plan, r *RNG) {
	p.World = "srv"
	p.Cfg = Config{Listener: "udp", ListenerIP: "10.0.0.1", Realm: "sim.realm", Auth: "static", RelayGen: "sim", Events: true,
		InboundMTU: 0, LatCSns: int64(r.Range(1, 40))*1e6 + int64(r.Intn(1000))*7 + 3, LatSPns: int64(r.Range(1, 30))*1e6 + int64(r.Intn(1000))*11 + 5}
	p.Cfg.Users = []User{{"u1", "pw-one"}, {"u2", "pw-two"}, {"u3", "pw-three"}}
}

// eofWithData: stream reads hand out their last bytes together with io.EOF (what a tls.Conn
// does when the close_notify is already there; legal for every io.Reader)
func eofWithData(p *Plan) {
	if p.Cfg.Extra == nil {
		p.Cfg.Extra = map[string]int64{}
	}
	p.Cfg.Extra["eof_with_data"] = 1
	p.Flavor += "+eof-with-data"
}

func addClients(p *Plan, r *RNG, n int) {
	for i := 0; i < n; i++ {
		ip := fmt.Sprintf("10.0.1.%d", 1+i)
		if i > 0 && r.Chance(1, 3) {
			ip = "10.0.1.1" // same host, other port
		}
		u := p.Cfg.Users[r.Intn(len(p.Cfg.Users))]
		if i == 0 {
			u = p.Cfg.Users[0]
		}
		p.Clients = append(p.Clients, ClientSpec{ID: fmt.Sprintf("c%d", i+1), Addr: fmt.Sprintf("%s:%d", ip, 4000+i*13), User: u.Name, Pass: u.Pass, Phase: int64(1000 + i*101)})
	}
}

func addPeers(p *Plan, r *RNG, n int) {
	for i := 0; i < n; i++ {
		p.Peers = append(p.Peers, PeerSpec{ID: fmt.Sprintf("p%d", i+1), Addr: fmt.Sprintf("10.0.2.%d:%d", 1+i, 5000+i*17)})
	}
}

const (
	ms  = int64(1e6)
	sec = int64(1e9)
)

func gap(ns int64) TimeSpec { return TimeSpec{GapNS: ns} }

func ref(kind string, off int64, of ...string) TimeSpec { return TimeSpec{Ref: kind, Of: of, OffNS: off} }

func secDurNS(s int) int64 { return int64(s) * sec }

var edgeOffsets = []int64{-sec, -1, 0, 1, sec, -ms, ms, -2 * sec, 30 * sec}
