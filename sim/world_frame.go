package sim

import (
	"encoding/binary"
	"encoding/hex"
	"errors"
	"fmt"
	"net"
	"testing"
	"time"

	"github.com/pion/logging"
	"github.com/pion/stun/v3"
	"github.com/pion/turn/v5"
	"github.com/pion/turn/v5/internal/client"
	"github.com/pion/turn/v5/internal/proto"
)

// NopObserver ignores all socket events.
type NopObserver struct{}

func (NopObserver) UDPReadCall(s *UDPSock)                         {}
func (NopObserver) UDPRead(s *UDPSock, d *Dgram, n int)            {}
func (NopObserver) UDPWrite(s *UDPSock, to *net.UDPAddr, b []byte) {}
func (NopObserver) UDPDeliverScripted(s *UDPSock, d *Dgram)        {}
func (NopObserver) SockOpen(info *SockInfo)                        {}
func (NopObserver) SockClose(info *SockInfo)                       {}
func (NopObserver) TCPRead(c *TCPConn, b []byte)                   {}
func (NopObserver) TCPReadCall(c *TCPConn)                         {}
func (NopObserver) TCPWrite(c *TCPConn, b []byte)                  {}
func (NopObserver) TCPAccepted(l *TCPListener, c *TCPConn)         {}
func (NopObserver) TCPClosed(c *TCPConn, how string)               {}
func (NopObserver) TCPReadEnd(c *TCPConn, err error)               {}
func (NopObserver) IOFaulted(role, op, addr string)                {}

// FrameWorld (W-frame): the real proto.STUNConn (and TCPAllocation.BindConnection) on a
// scripted byte stream whose segmentation the plan decides.
type FrameWorld struct {
	K   *Kernel
	P   *Plan
	Net *Net
	LF  *SimLoggerFactory

	wr, rd   *TCPConn
	expected [][]byte // reference frames, in order
	expEnd   []int    // cumulative end offset of each expected frame
	garbageAt int     // stream offset where bytes that cannot start a frame begin (-1 none)
	written  int
	results  []frameRes
	readerDone bool
	opIdx    int
	prev     int64
	done     bool
	finSent  bool
	withheldReported bool
	reported map[string]bool
	finishing bool

	// bind-reply flavour
	bindRes   chan error
	bindErr   error
	bindDone  bool
	bindTail, bindGot []byte // peer data sent right behind the reply / what the application read
	bindTailErr error
	bindWant  bool
	bindReply []byte
	bindAt    int64
}

type frameRes struct {
	T   int64
	N   int
	B   []byte
	Err error
}

func buildFrame(seed uint64, op *Op) []byte {
	r := NewRNG(Mix(seed, uint64(op.ID), 0xf4a3e))
	switch op.A.S {
	case "stun":
		n := op.A.Len
		b := make([]byte, 20+n)
		copy(b[20:], r.Bytes(n))
		b[0], b[1] = 0x00, 0x01
		if op.A.Content == "indication" {
			b[0], b[1] = 0x00, 0x16
		}
		binary.BigEndian.PutUint16(b[2:4], uint16(n))
		binary.BigEndian.PutUint32(b[4:8], 0x2112A442)
		copy(b[8:20], r.Bytes(12))
		return b
	case "chan":
		n := op.A.Len
		data := r.Bytes(n)
		if op.A.Content == "stunlike" && n >= 4 {
			// payload whose first bytes are the magic cookie: bytes 4..8 of the frame
			binary.BigEndian.PutUint32(data[0:4], 0x2112A442)
		}
		if op.A.Content == "zero" {
			for i := range data {
				data[i] = 0
			}
		}
		return buildChannelData(uint16(op.A.Chan), data, true)
	}
	b, _ := hex.DecodeString(op.A.Raw)
	return b
}

func NewFrameWorld(k *Kernel, p *Plan) *FrameWorld {
	w := &FrameWorld{K: k, P: p, garbageAt: -1}
	w.Net = NewNet(k)
	w.Net.Obs = NopObserver{}
	w.LF = NewLoggerFactory(k, false)
	return w
}

func (w *FrameWorld) start() {
	a := &net.TCPAddr{IP: net.ParseIP("10.0.1.1"), Port: 4000}
	b := &net.TCPAddr{IP: net.ParseIP("10.0.0.1"), Port: 3478}
	w.Net.SetName(akey(a.IP, a.Port), "wr")
	w.Net.SetName(akey(b.IP, b.Port), "rd")
	w.wr, w.rd = w.Net.newConnPair("writer", "reader", a, b)
	w.wr.SetScripted(nil, nil)
	if w.P.Flavor == "bindreply" {
		w.startBind()
		return
	}
	sc := turn.NewSTUNConn(w.rd)
	go func() {
		buf := make([]byte, 70000)
		zero := 0
		transient := 0
		for {
			n, _, err := sc.ReadFrom(buf)
			fr := frameRes{T: w.K.Now(), N: n, Err: err}
			if err == nil {
				m := n
				if m > len(buf) {
					m = len(buf)
				}
				fr.B = append([]byte(nil), buf[:m]...)
			}
			w.results = append(w.results, fr)
			w.K.Yield("frame:result", "rd")
			if err != nil && errors.Is(err, errInjected) && transient < 64 {
				// an injected read error (a deadline that expired between two segments, EINTR):
				// the stream itself is intact, the application reads on
				transient++
				continue
			}
			if err != nil {
				break
			}
			if n == 0 {
				zero++
				if zero > 5000 {
					break
				}
			}
		}
		w.readerDone = true
	}()
}

type fakeTurnClient struct{}

func (fakeTurnClient) WriteTo(b []byte, to net.Addr) (int, error) { return len(b), nil }
func (fakeTurnClient) PerformTransaction(m *stun.Message, to net.Addr, dontWait bool) (client.TransactionResult, error) {
	return client.TransactionResult{}, errors.New("not connected")
}
func (fakeTurnClient) OnDeallocated(net.Addr) {}

func (w *FrameWorld) startBind() {
	var lg logging.LeveledLogger = w.LF.NewLogger("turnc")
	w.bindRes = make(chan error, 1)
	// scripted server side: answer once the request has fully arrived
	got := 0
	w.wr.OnData = func(c *TCPConn, b []byte) {
		got += len(b)
		if w.bindReply != nil && got >= 20 && !w.finSent {
			rep := w.bindReply
			w.bindReply = nil
			w.bindAt = w.K.Now()
			_, _ = c.Write(rep)
			if w.P.Cfg.Extra["fin_after_reply"] == 1 {
				_ = c.CloseWrite()
			}
		}
	}
	go func() {
		alloc := client.NewTCPAllocation(&client.AllocationConfig{
			Client: fakeTurnClient{}, RelayedAddr: &net.TCPAddr{IP: net.ParseIP("10.0.0.2"), Port: 50000},
			ServerAddr: &net.TCPAddr{IP: net.ParseIP("10.0.0.1"), Port: 3478},
			Username:   stun.NewUsername("u1"), Realm: stun.NewRealm("sim.realm"), Nonce: stun.NewNonce("abc"),
			Integrity: stun.NewLongTermIntegrity("u1", "sim.realm", "pw"), Lifetime: 600 * time.Second, Log: lg,
		})
		dc := &client.TCPConn{TCPConn: shimConn(w.rd), ConnectionID: proto.ConnectionID(7)}
		err := alloc.BindConnection(dc, proto.ConnectionID(7))
		w.bindErr = err
		if err == nil && len(w.bindTail) > 0 {
			// what follows the reply on the connection is the peer's: the application reads it
			// through the same object, with a buffer of its own choosing
			sz := int(w.P.Cfg.Extra["read_size"])
			if sz <= 0 {
				sz = 4096
			}
			buf := make([]byte, sz)
			_ = dc.SetReadDeadline(time.Now().Add(20 * time.Second))
			for reads := 0; len(w.bindGot) < len(w.bindTail) && reads < 4*len(w.bindTail)+1000; reads++ {
				n, rerr := dc.Read(buf)
				w.bindGot = append(w.bindGot, buf[:n]...)
				if rerr != nil {
					w.bindTailErr = rerr
					break
				}
			}
		}
		w.bindDone = true
		_ = alloc.Close()
	}()
}

func (w *FrameWorld) exec(op *Op) {
	switch op.Kind {
	case "frame", "bytes":
		b := buildFrame(w.P.Seed, op)
		if op.Kind == "bytes" {
			b, _ = hex.DecodeString(op.A.Raw)
			if w.garbageAt < 0 {
				w.garbageAt = w.written
			}
		} else if w.garbageAt < 0 {
			w.expected = append(w.expected, b)
			w.expEnd = append(w.expEnd, w.written+len(b))
		}
		w.written += len(b)
		_, _ = w.wr.Write(b)
	case "fin":
		w.finSent = true
		_ = w.wr.CloseWrite()
	case "rst":
		w.finSent = true
		w.wr.reset()
	case "bindreply":
		// arm the scripted reply: built from args
		w.bindWant = op.A.S == "success"
		w.bindReply = buildBindReply(w.P.Seed, op)
		if op.A.N > 0 && w.bindWant {
			// peer data right behind the reply, in the same write
			w.bindTail = NewRNG(Mix(w.P.Seed, uint64(op.ID), 0x7a11)).Bytes(op.A.N)
			w.bindReply = append(w.bindReply, w.bindTail...)
		}
	case "wait":
	default:
		Fatalf("frame world: op %q", op.Kind)
	}
}

func buildBindReply(seed uint64, op *Op) []byte {
	r := NewRNG(Mix(seed, uint64(op.ID), 0xb1d))
	cls := stun.ClassSuccessResponse
	if op.A.S != "success" {
		cls = stun.ClassErrorResponse
	}
	setters := []stun.Setter{stun.NewTransactionIDSetter([12]byte{1, 2, 3, 4, 5, 6, 7, 8, 9, 10, 11, 12}), stun.NewType(methodConnBind, cls)}
	if op.A.S != "success" {
		setters = append(setters, stun.ErrorCodeAttribute{Code: stun.CodeBadRequest, Reason: []byte("bad")})
	}
	setters = append(setters, aConnID(7))
	if op.A.Len > 0 {
		setters = append(setters, rawAttr{stun.AttrType(0x8022), r.Bytes(op.A.Len)}) // SOFTWARE-like padding attribute
	}
	m, err := stun.Build(setters...)
	if err != nil {
		Fatalf("bind reply: %v", err)
	}
	return append([]byte(nil), m.Raw...)
}

func (w *FrameWorld) scheduleNext() {
	if w.opIdx >= len(w.P.Ops) {
		w.K.At(w.K.Now()+w.P.QuietNS+sec, "end-of-plan", func() { w.finish() })
		return
	}
	op := &w.P.Ops[w.opIdx]
	w.opIdx++
	at := w.prev + op.At.GapNS
	if at < w.K.Now() {
		at = w.K.Now()
	}
	w.K.At(at, fmt.Sprintf("op:%d:%s", op.ID, op.Kind), func() {
		w.prev = w.K.Now()
		w.K.Stats.Op(op.Kind)
		w.K.OpIssued(op.ID)
		w.exec(op)
		w.scheduleNext()
	})
}

func (w *FrameWorld) viol(class string, key map[string]string, format string, args ...any) {
	if w.reported == nil {
		w.reported = map[string]bool{}
	}
	if w.reported[class] {
		return
	}
	w.reported[class] = true
	w.K.Violate(&Violation{Property: "C10", Class: class, Key: key, Detail: fmt.Sprintf(format, args...)})
}

// check compares what the reader returned so far with the reference frames.
func (w *FrameWorld) check(final bool) {
	if w.finishing || w.P.Flavor == "bindreply" {
		return
	}
	if w.P.Cfg.Extra["hostile"] == 1 {
		// arbitrary bytes: frames are not judged, only termination and progress
		zero := 0
		for _, r := range w.results {
			if r.Err == nil && r.N == 0 {
				zero++
			}
		}
		if zero > 2 {
			w.K.Violate(&Violation{Property: "C09", Class: "spin", Key: kv("where", "STUNConn.ReadFrom"), Detail: "ReadFrom keeps returning 0-byte frames without consuming input"})
		}
		return
	}
	arrived := w.rd.Arrived
	complete := 0
	for i, e := range w.expEnd {
		if e <= arrived {
			complete = i + 1
		}
	}
	okReads := 0
	for i, r := range w.results {
		if r.Err != nil && errors.Is(r.Err, errInjected) {
			continue // transient: consumed nothing, the next read carries on
		}
		if r.Err != nil {
			// an error is legitimate after FIN/RST, or at bytes that cannot start a frame
			if !w.finSent && w.garbageAt < 0 {
				w.viol("frame-mismatch", kv("kind", "spurious-error"), "ReadFrom #%d returned error %v although the stream is open and well-formed", i, r.Err)
			}
			break
		}
		if okReads >= len(w.expected) {
			if w.garbageAt >= 0 {
				w.viol("garbage-accepted", nil, "ReadFrom returned %d bytes of data after the last well-formed frame (garbage starts at stream offset %d)", r.N, w.garbageAt)
			} else if r.N == 0 {
				w.viol("no-progress", nil, "ReadFrom returned a 0-byte frame without consuming anything")
			} else {
				w.viol("frame-mismatch", kv("kind", "extra-frame"), "ReadFrom returned an unexpected extra frame of %d bytes", r.N)
			}
			return
		}
		exp := w.expected[okReads]
		if r.N == 0 {
			w.viol("no-progress", nil, "ReadFrom #%d returned a 0-byte frame (expected frame of %d bytes)", i, len(exp))
			return
		}
		if r.N != len(exp) || string(r.B) != string(exp) {
			w.viol("frame-mismatch", kv("kind", frameKind(exp)), "ReadFrom #%d returned %d bytes, reference frame #%d has %d bytes (first bytes %x vs %x)", i, r.N, okReads, len(exp), head(r.B), head(exp))
			return
		}
		okReads++
	}
	if final {
		// reach probes (evidence): what kinds of frame and segmentation were actually compared
		w.K.Stats.ProbeN("frames_compared", okReads)
		for i := 0; i < okReads; i++ {
			w.K.Stats.Probe("frame_" + frameKind(w.expected[i]) + "_" + lenClass(len(w.expected[i])))
		}
		if len(w.P.Streams) > 0 {
			sc := w.P.Streams[0]
			switch {
			case len(sc.Cuts) == 0:
				w.K.Stats.Probe("seg_coalesced")
			case len(sc.Cuts) == 1 && sc.Cuts[0] == 1:
				w.K.Stats.Probe("seg_byte_at_a_time")
			default:
				w.K.Stats.Probe("seg_cut_pattern")
			}
			if len(sc.Reads) > 0 {
				w.K.Stats.Probe("short_reads")
			}
		}
		if w.garbageAt >= 0 {
			w.K.Stats.Probe("garbage_after_frames")
		}
		if w.finSent {
			w.K.Stats.Probe("stream_closed_by_writer")
		}
	}
	if okReads < complete && !w.withheldReported && len(w.K.StallIntervals()) == 0 {
		exp := w.expected[okReads]
		w.withheldReported = true
		w.viol("frame-withheld", kv("kind", frameKind(exp), "len", lenClass(len(exp))), "frame #%d (%d bytes, %s) has completely arrived (%d stream bytes delivered) but ReadFrom has not returned it at quiescence",
			okReads, len(exp), frameKind(exp), arrived)
	}
}

func head(b []byte) []byte {
	if len(b) > 8 {
		return b[:8]
	}
	return b
}

func frameKind(b []byte) string {
	if len(b) > 0 && b[0]&0xC0 == 0 {
		return "stun"
	}
	return "chandata"
}

func (w *FrameWorld) finish() {
	w.check(true)
	w.finishing = true
	if w.P.Flavor == "bindreply" {
		w.checkBind()
	}
	_ = w.wr.closeHow(false)
	rd := w.rd
	go func() { _ = rd.Close() }()
	w.K.At(w.K.Now()+sec, "final", func() { w.done = true })
}

func (w *FrameWorld) checkBind() {
	if !w.bindDone {
		w.viol("bindreply-segmentation", kv("how", "hang"), "BindConnection has not returned although the complete reply was delivered")
		return
	}
	if w.bindWant && w.bindErr != nil {
		w.viol("bindreply-segmentation", kv("how", "error"), "BindConnection failed on a ConnectionBind success reply: %v", w.bindErr)
	}
	if !w.bindWant && w.bindErr == nil {
		w.viol("bindreply-segmentation", kv("how", "accepted-error"), "BindConnection succeeded on an error reply")
	}
	if w.bindWant && w.bindErr == nil && len(w.bindTail) > 0 && !w.finSent && string(w.bindGot) != string(w.bindTail) {
		w.viol("bindreply-segmentation", kv("how", "tail"), "the %d bytes of peer data that followed the ConnectionBind reply were read as %d bytes (err %v) that differ from them (read size %d)",
			len(w.bindTail), len(w.bindGot), w.bindTailErr, w.P.Cfg.Extra["read_size"])
	}
}

func (w *FrameWorld) Run(maxSteps int) string {
	w.start()
	w.K.At(w.K.Now()+ms, "begin", func() { w.prev = w.K.Now(); w.scheduleNext() })
	return w.K.Drive(maxSteps, func(now int64) { w.check(false) }, func() bool { return w.done })
}

func runFrameWorld(t *testing.T, k *Kernel, p *Plan, rec *RunRecord) {
	w := NewFrameWorld(k, p)
	reason := w.Run(200000)
	fillRecord(rec, k, reason)
	rec.Requests = len(w.results) + 3
	rec.States = len(w.results)
}
