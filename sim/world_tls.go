package sim

import (
	"bytes"
	"crypto/ed25519"
	"crypto/tls"
	"crypto/x509"
	"crypto/x509/pkix"
	"encoding/hex"
	"fmt"
	"math/big"
	"net"
	"sync"
	"time"

	"github.com/pion/stun/v3"
	"github.com/pion/turn/v5"
)

// W-tls: the real turn.Server behind a TLS listener (crypto/tls over simnet streams). The
// server's per-connection goroutine completes the handshake itself before it serves, with a
// 10-second limit - a path no other world passes. Clients: "tls" ones complete a real
// handshake and run a Binding transaction over it; "plain" ones send whatever the plan says
// (STUN in the clear, hostile bytes, nothing) and never a handshake; any of them may hang up
// at any time. Oracle: a Binding over TLS is answered with the client's address; every
// connection the server accepted is closed by the server within 15 s of the moment its
// handshake failed or could no longer complete (C15/C09), nothing is open 5 s after
// Server.Close, no goroutine of the library remains.

type tlsClient struct {
	ID     string
	Addr   *net.UDPAddr
	raw    *TCPConn
	tc     *tls.Conn
	mu     sync.Mutex
	hsDone bool
	hsErr  error
	sentAt int64 // first plaintext bytes / connect instant of a client that never handshakes
	resp   []*stun.Message
	closed bool
}

type TLSWorld struct {
	K       *Kernel
	P       *Plan
	Net     *Net
	LF      *SimLoggerFactory
	Srv     *turn.Server
	started chan struct{}
	Clients map[string]*tlsClient
	cert    tls.Certificate
	pool    *x509.CertPool
	opIdx   int
	prev    int64
	done    bool
	libMu   sync.Mutex
	libN    int
	closedAt int64
	srvClosed bool
}

func NewTLSWorld(k *Kernel, p *Plan) *TLSWorld {
	w := &TLSWorld{K: k, P: p, Clients: map[string]*tlsClient{}, started: make(chan struct{})}
	w.Net = NewNet(k)
	w.Net.Obs = NopObserver{}
	w.Net.OpaqueStreams = true
	w.LF = NewLoggerFactory(k, p.Expect != nil)
	return w
}

// tlsGen: UDP relays on simnet (no TCP allocations in this world).
type tlsGen struct {
	N  *Net
	IP net.IP
}

func (g *tlsGen) Validate() error { return nil }
func (g *tlsGen) AllocatePacketConn(c turn.AllocateListenerConfig) (net.PacketConn, net.Addr, error) {
	s, err := g.N.ListenUDP("relay", c.UserID, g.IP, c.RequestedPort)
	if err != nil {
		return nil, nil, err
	}
	return s, s.LocalAddr(), nil
}
func (g *tlsGen) AllocateListener(c turn.AllocateListenerConfig) (net.Listener, net.Addr, error) {
	return nil, nil, fmt.Errorf("tls world: no tcp allocations")
}
func (g *tlsGen) AllocateConn(c turn.AllocateConnConfig) (net.Conn, error) {
	return nil, fmt.Errorf("tls world: no tcp allocations")
}

func (w *TLSWorld) lib(f func()) {
	w.libMu.Lock()
	w.libN++
	w.libMu.Unlock()
	go func() {
		defer func() {
			w.libMu.Lock()
			w.libN--
			w.libMu.Unlock()
		}()
		f()
	}()
}

func (w *TLSWorld) pending() int {
	w.libMu.Lock()
	defer w.libMu.Unlock()
	return w.libN
}

// selfSigned: a certificate that is the same in every run (Ed25519 from a fixed seed signs
// deterministically).
func selfSigned() (tls.Certificate, *x509.CertPool) {
	seed := bytes.Repeat([]byte{0x5a}, ed25519.SeedSize)
	priv := ed25519.NewKeyFromSeed(seed)
	tmpl := &x509.Certificate{SerialNumber: big.NewInt(7), Subject: pkix.Name{CommonName: "turn.sim"}, DNSNames: []string{"turn.sim"},
		NotBefore: time.Unix(0, 0), NotAfter: time.Unix(4000000000, 0), KeyUsage: x509.KeyUsageDigitalSignature, ExtKeyUsage: []x509.ExtKeyUsage{x509.ExtKeyUsageServerAuth},
		BasicConstraintsValid: true, IsCA: true}
	der, err := x509.CreateCertificate(nil, tmpl, tmpl, priv.Public(), priv)
	if err != nil {
		Fatalf("certificate: %v", err)
	}
	leaf, _ := x509.ParseCertificate(der)
	pool := x509.NewCertPool()
	pool.AddCert(leaf)
	return tls.Certificate{Certificate: [][]byte{der}, PrivateKey: priv, Leaf: leaf}, pool
}

func (w *TLSWorld) start() {
	ip := net.ParseIP("10.0.0.1")
	w.Net.ServerIPs[ip.String()] = true
	w.Net.SetName("10.0.0.1:5349", "srv")
	w.cert, w.pool = selfSigned()
	l, err := w.Net.ListenTCP("listener", "srv", ip, 5349)
	if err != nil {
		Fatalf("tls listen: %v", err)
	}
	tl := tls.NewListener(l, &tls.Config{Certificates: []tls.Certificate{w.cert}, MinVersion: tls.VersionTLS12})
	gen := &tlsGen{w.Net, net.ParseIP("10.0.0.2")}
	sc := turn.ServerConfig{Realm: "sim.realm", LoggerFactory: w.LF,
		AuthHandler: func(ra *turn.RequestAttributes) (string, []byte, bool) {
			return ra.Username, turn.GenerateAuthKey(ra.Username, ra.Realm, "pw"), true
		},
		ListenerConfigs: []turn.ListenerConfig{{Listener: tl, RelayAddressGenerator: gen}}}
	w.lib(func() {
		srv, err := turn.NewServer(sc)
		if err != nil {
			Fatalf("tls NewServer: %v", err)
		}
		w.Srv = srv
		close(w.started)
	})
	for _, spec := range w.P.Clients {
		a := mustUDPAddr(spec.Addr)
		w.Clients[spec.ID] = &tlsClient{ID: spec.ID, Addr: a}
		w.Net.SetName(akey(a.IP, a.Port), spec.ID)
	}
}

func (w *TLSWorld) exec(op *Op) {
	c := w.Clients[op.Actor]
	if c == nil {
		switch op.Kind {
		case "wait":
		case "srv_close":
			if !w.srvClosed {
				w.srvClosed = true
				w.lib(func() {
					<-w.started
					_ = w.Srv.Close()
				})
			}
		default:
			Fatalf("tls world: op %q of %q", op.Kind, op.Actor)
		}
		return
	}
	switch op.Kind {
	case "connect", "tls_connect":
		real := op.Kind == "tls_connect"
		w.lib(func() {
			<-w.started
			rc, err := w.Net.Dial("client", &net.TCPAddr{IP: c.Addr.IP, Port: c.Addr.Port}, &net.TCPAddr{IP: net.ParseIP("10.0.0.1"), Port: 5349}, 30*time.Second)
			if err != nil {
				return
			}
			c.mu.Lock()
			c.raw = rc
			c.sentAt = w.K.Now()
			c.mu.Unlock()
			if !real {
				return
			}
			tc := tls.Client(rc, &tls.Config{RootCAs: w.pool, ServerName: "turn.sim", MinVersion: tls.VersionTLS12, Time: func() time.Time { return time.Unix(1000, 0) }})
			err = tc.Handshake()
			c.mu.Lock()
			c.tc, c.hsDone, c.hsErr = tc, true, err
			c.mu.Unlock()
			if err != nil {
				return
			}
			w.K.Stats.Probe("tls_handshake_ok")
			// the reader of this connection: whole STUN messages (the server frames them)
			buf := make([]byte, 0, 4096)
			tmp := make([]byte, 2048)
			for {
				n, err := tc.Read(tmp)
				buf = append(buf, tmp[:n]...)
				for len(buf) >= 20 {
					fl, _ := refFrameLen(buf)
					if fl > len(buf) {
						break
					}
					if m, ok := decodeSTUN(buf[:fl]); ok {
						c.mu.Lock()
						c.resp = append(c.resp, m)
						c.mu.Unlock()
					}
					buf = buf[fl:]
				}
				if err != nil {
					return
				}
			}
		})
	case "tls_binding":
		c.mu.Lock()
		tc, ok := c.tc, c.hsDone && c.hsErr == nil
		c.mu.Unlock()
		if !ok {
			return
		}
		m, _ := stun.Build(stun.NewTransactionIDSetter(tidOf(w.P.Seed, op.ID)), stun.BindingRequest, stun.Fingerprint)
		raw := append([]byte(nil), m.Raw...)
		w.lib(func() { _, _ = tc.Write(raw) })
		w.K.Stats.Probe("tls_binding_sent")
	case "raw":
		c.mu.Lock()
		rc := c.raw
		c.mu.Unlock()
		if rc == nil {
			return
		}
		b, _ := hex.DecodeString(op.A.Raw)
		w.lib(func() { _, _ = rc.Write(b) })
	case "hangup":
		c.mu.Lock()
		rc, tc := c.raw, c.tc
		c.closed = true
		c.mu.Unlock()
		if rc == nil {
			return
		}
		if hasFlag(op, "rst") {
			rc.reset()
		} else if tc != nil && hasFlag(op, "notify") {
			w.lib(func() { _ = tc.Close() })
		} else {
			_ = rc.closeHow(false)
		}
	default:
		Fatalf("tls world: op %q", op.Kind)
	}
}

func tidOf(seed uint64, id int) [12]byte {
	var t [12]byte
	copy(t[:], NewRNG(Mix(seed, uint64(id), 0x715)).Bytes(12))
	return t
}

func (w *TLSWorld) scheduleNext() {
	if w.opIdx >= len(w.P.Ops) {
		w.K.At(w.K.Now()+w.P.QuietNS, "end-of-plan", w.finish)
		return
	}
	op := &w.P.Ops[w.opIdx]
	w.opIdx++
	at := w.prev + op.At.GapNS
	if at < w.K.Now() {
		at = w.K.Now()
	}
	w.K.At(at, fmt.Sprintf("op:%d:%s:%s", op.ID, op.Actor, op.Kind), func() {
		w.prev = w.K.Now()
		w.K.Stats.Op(op.Kind)
		w.K.OpIssued(op.ID)
		w.exec(op)
		w.scheduleNext()
	})
}

// judge: before the server is closed.
func (w *TLSWorld) judge() {
	now := w.K.Now()
	stalled := len(w.K.StallIntervals()) > 0
	for _, c := range w.Clients {
		c.mu.Lock()
		if c.hsDone && c.hsErr == nil {
			// every Binding request sent at least 2 s ago is answered with this client's address
			for i := range w.P.Ops {
				op := &w.P.Ops[i]
				if op.Actor != c.ID || op.Kind != "tls_binding" {
					continue
				}
				tid := tidOf(w.P.Seed, op.ID)
				var got *stun.Message
				for _, m := range c.resp {
					if m.TransactionID == tid {
						got = m
					}
				}
				if got == nil {
					if !c.closed && !stalled && !w.srvClosed {
						w.K.Violate(&Violation{Property: "C09", Class: "no-response", Key: kv("method", "binding", "how", "tls"), Detail: fmt.Sprintf("Binding request of %s over TLS was never answered", c.ID)})
					}
					continue
				}
				var x stun.XORMappedAddress
				if err := x.GetFrom(got); err != nil || !x.IP.Equal(c.Addr.IP) || x.Port != c.Addr.Port {
					w.K.Violate(&Violation{Property: "C19", Class: "wrong-mapped-address", Key: kv("method", "binding", "how", "tls"), Detail: fmt.Sprintf("Binding over TLS from %s reports %v:%d", akey(c.Addr.IP, c.Addr.Port), x.IP, x.Port)})
				}
			}
		}
		// a connection that never got (and can no longer get) a handshake is closed by the server:
		// at once when the first bytes are not a handshake, 10 s after the connect otherwise
		if c.raw != nil && !c.hsDone && !c.closed && !stalled && !w.srvClosed && now > c.sentAt+15*sec {
			peer := c.raw.peer
			peer.mu.Lock()
			open := !peer.closed
			peer.mu.Unlock()
			if open {
				w.K.Violate(&Violation{Property: "C15", Class: "leak", Key: kv("kind", "tls-conn-no-handshake"),
					Detail: fmt.Sprintf("connection of %s was accepted at %d, no TLS handshake completed within the server's 10 s limit, and the server still has it open at %d", c.ID, c.sentAt, now)})
			}
		}
		c.mu.Unlock()
	}
}

func (w *TLSWorld) finish() {
	w.judge()
	if !w.srvClosed {
		w.srvClosed = true
		w.lib(func() {
			<-w.started
			_ = w.Srv.Close()
		})
	}
	w.closedAt = w.K.Now()
	w.K.At(w.K.Now()+12*sec, "final", w.final)
}

func (w *TLSWorld) final() {
	if len(w.K.StallIntervals()) == 0 || w.K.Parked() == 0 {
		for _, s := range w.Net.OpenSockets() {
			if s.Role == "relay" || s.Role == "listener" || s.Role == "listener-conn" {
				w.K.Violate(&Violation{Property: "C15", Class: "open-after-server-close", Key: kv("kind", s.Kind+":"+s.Role, "how", "tls"),
					Detail: fmt.Sprintf("%s %s (%s, remote %s) still open 12 s after Server.Close of a TLS listener", s.Kind, s.Role, s.Addr, s.Remote)})
			}
		}
	}
	// the harness lets go of its own ends
	for _, c := range w.Clients {
		c.mu.Lock()
		rc := c.raw
		c.mu.Unlock()
		if rc != nil {
			_ = rc.closeHow(false)
		}
	}
	w.K.At(w.K.Now()+2*sec, "done", func() { w.done = true })
}

func (w *TLSWorld) Run(maxSteps int) string {
	w.start()
	w.K.At(w.K.Now()+50*ms, "begin", func() {
		w.prev = w.K.Now()
		w.scheduleNext()
	})
	return w.K.Drive(maxSteps, func(now int64) {}, func() bool { return w.done })
}

func runTLSWorld(k *Kernel, p *Plan, rec *RunRecord) {
	w := NewTLSWorld(k, p)
	reason := w.Run(maxStepsFor(p))
	if n, first := libGoroutines(); n > 0 && reason == "stopped" && len(k.StallIntervals()) == 0 {
		// (under the dense stalls of C18 a goroutine may still sit in a ten-minute park)
		k.Violate(&Violation{Property: "C15", Class: "leak", Key: kv("kind", "goroutine", "how", "tls"), Detail: first})
	}
	fillRecord(rec, k, reason)
	rec.States = len(w.Clients)
}
