package sim

import (
	"encoding/binary"
	"encoding/hex"
	"fmt"
	"net"
	"strings"
	"sync"

	"github.com/pion/stun/v3"
)

// RawClient is a scripted TURN client: a state machine run by the driver (no goroutine,
// no library transport code). It builds requests with pion/stun and our own attribute
// encoders, authenticates reactively (401 -> resend with credentials, 438 -> new nonce)
// and records everything it receives.
type RawClient struct {
	mu    sync.Mutex // free-running mode: ops and deliveries come from different timer goroutines
	W     *SrvWorld
	Spec  ClientSpec
	Addr  *net.UDPAddr
	sock  *UDPSock
	conn  *TCPConn // TCP control connection (listener = tcp)
	inbuf []byte
	connUp bool
	queue  [][]byte // frames waiting for the control connection

	nonce      string
	firstNonce string
	realm      string
	Relay      *net.UDPAddr
	Token      []byte // RESERVATION-TOKEN of the last Allocate success
	tidCtr     int
	tids       map[int][12]byte  // op id -> transaction id used (last attempt)
	sent       map[int][]byte    // op id -> last authenticated wire bytes (for replay ops)
	pending    map[[12]byte]*pendOp
	Received   []RecvRec
	ConnIDs    []uint32
	Data       []*dataConn
}

type pendOp struct {
	op      *Op
	tries   int
	authed  bool
}

type RecvRec struct {
	T    int64
	Kind string // response | data | chandata | connattempt | other
	From string
	Chan uint16
	Data []byte
	Msg  *stun.Message
}

func (c *RawClient) newTID(op *Op, attempt int) [12]byte {
	var t [12]byte
	if strings.HasPrefix(op.A.TID, "shared:") {
		h := HashStr(op.A.TID)
		binary.BigEndian.PutUint64(t[0:8], h)
		binary.BigEndian.PutUint32(t[8:12], uint32(attempt))
		return t
	}
	if strings.HasPrefix(op.A.TID, "same_as:") {
		var id int
		fmt.Sscanf(op.A.TID, "same_as:%d", &id)
		if old, ok := c.tids[id]; ok {
			return old
		}
	}
	c.tidCtr++
	h := Mix(c.W.P.Seed, HashStr(c.Spec.ID), uint64(op.ID), uint64(attempt), uint64(c.tidCtr))
	binary.BigEndian.PutUint64(t[0:8], h)
	binary.BigEndian.PutUint32(t[8:12], uint32(Mix(h, 7)))
	return t
}

func (c *RawClient) userPass(op *Op) (string, string) {
	u, p := c.Spec.User, c.Spec.Pass
	if op.A.User != "" {
		u = op.A.User
		for _, x := range c.W.P.Cfg.Users {
			if x.Name == u {
				p = x.Pass
			}
		}
	}
	return u, p
}

// credSetters appends credential attributes according to the op's cred mode.
func (c *RawClient) credSetters(op *Op, withAuth bool) (pre []stun.Setter, post func(m *stun.Message)) {
	mode := op.A.Cred
	if mode == "" {
		mode = "ok"
	}
	if mode == "none" || !withAuth {
		return nil, nil
	}
	user, pass := c.userPass(op)
	realm := c.realm
	nonce := c.nonce
	switch mode {
	case "wrongkey":
		pass += "x"
	case "unknownuser":
		user = "nobody"
	case "forgednonce":
		nonce = "zz" + hex.EncodeToString(NewRNG(Mix(c.W.P.Seed, uint64(op.ID))).Bytes(10))
	case "mutnonce":
		if len(nonce) > 2 {
			b := []byte(nonce)
			i := len(b) / 2
			if b[i] == 'a' {
				b[i] = 'b'
			} else {
				b[i] = 'a'
			}
			nonce = string(b)
		}
	case "oldnonce":
		if c.firstNonce != "" {
			nonce = c.firstNonce
		}
	case "appendnonce":
		// signed over a nonce this server never issued; a current one is appended behind
		// MESSAGE-INTEGRITY (see post below): the request is judged by the nonce it was signed with
		nonce = "ee" + hex.EncodeToString(NewRNG(Mix(c.W.P.Seed, uint64(op.ID), 7)).Bytes(10))
	case "wrongrealm":
		realm += "x"
	case "othernonce":
		if c.W.Mini != nil {
			if n, err := c.W.Mini.other.Generate(); err == nil {
				nonce = n
			}
		}
	}
	if mode != "nouser" {
		pre = append(pre, stun.NewUsername(user))
	}
	if mode != "norealm" {
		pre = append(pre, stun.NewRealm(realm))
	}
	if mode != "nononce" {
		pre = append(pre, stun.NewNonce(nonce))
	}
	if mode == "nomi" {
		return pre, nil
	}
	pre = append(pre, stun.NewLongTermIntegrity(user, realm, pass))
	switch mode {
	case "appendnonce":
		fresh := c.nonce
		post = func(m *stun.Message) {
			m.Add(stun.AttrNonce, []byte(fresh))
		}
	case "flipmi":
		post = func(m *stun.Message) { corruptMI(m, false) }
	case "truncmi":
		post = func(m *stun.Message) { corruptMI(m, true) }
	}
	return pre, post
}

// corruptMI flips a bit of (or truncates) the MESSAGE-INTEGRITY value in the raw message.
func corruptMI(m *stun.Message, trunc bool) {
	raw := m.Raw
	off := 20
	for off+4 <= len(raw) {
		t := binary.BigEndian.Uint16(raw[off:])
		l := int(binary.BigEndian.Uint16(raw[off+2:]))
		if t == uint16(stun.AttrMessageIntegrity) {
			if trunc {
				// shorten the attribute to 16 bytes and fix lengths
				binary.BigEndian.PutUint16(raw[off+2:], 16)
				raw = append(raw[:off+4+16], raw[off+4+20:]...)
				binary.BigEndian.PutUint16(raw[2:], uint16(len(raw)-20))
				m.Raw = raw
			} else {
				raw[off+4+7] ^= 0x10
			}
			return
		}
		off += 4 + (l+3)/4*4
	}
}

func (c *RawClient) peerAddr(s string) *net.UDPAddr {
	if s == "" {
		return &net.UDPAddr{IP: net.ParseIP("10.0.9.9"), Port: 9}
	}
	return mustUDPAddr(s)
}

// buildRequest returns the wire bytes of a request op.
func (c *RawClient) buildRequest(op *Op, withAuth bool, attempt int) ([]byte, [12]byte) {
	tid := c.newTID(op, attempt)
	var mt stun.MessageType
	var body []stun.Setter
	switch op.Kind {
	case "binding":
		mt = stun.BindingRequest
	case "allocate":
		mt = stun.NewType(stun.MethodAllocate, stun.ClassRequest)
		switch op.A.Transport {
		case "", "udp":
			body = append(body, aReqTransport(17))
		case "tcp":
			body = append(body, aReqTransport(6))
		case "other":
			body = append(body, aReqTransport(1))
		case "absent":
		}
		if op.A.Lifetime >= 0 && !(op.A.Lifetime == 0 && !hasFlag(op, "life0")) {
			body = append(body, aLifetime(uint32(op.A.Lifetime)))
		}
		switch op.A.Family {
		case "4":
			body = append(body, aReqFamily(1))
		case "6":
			body = append(body, aReqFamily(2))
		case "bad":
			body = append(body, aReqFamily(3))
		}
		if hasFlag(op, "evenport") {
			body = append(body, rawAttr{attrEvenPort, []byte{0x80}})
		}
		if hasFlag(op, "dontfrag") {
			body = append(body, rawAttr{attrDontFragment, nil})
		}
		if hasFlag(op, "token") {
			body = append(body, rawAttr{attrReservationTok, []byte("12345678")})
		}
		if hasFlag(op, "usetoken") {
			// the reservation token another client (op.A.Target) was given with its EVEN-PORT allocation
			tok := []byte("nonesuch")
			if src := c.W.Clients[op.A.Target]; src != nil && src != c {
				src.mu.Lock()
				if len(src.Token) > 0 {
					tok = append([]byte(nil), src.Token...)
				}
				src.mu.Unlock()
			}
			body = append(body, rawAttr{attrReservationTok, tok})
		}
	case "refresh":
		mt = stun.NewType(stun.MethodRefresh, stun.ClassRequest)
		if op.A.Lifetime >= 0 {
			body = append(body, aLifetime(uint32(op.A.Lifetime)))
		}
		switch op.A.Family {
		case "4":
			body = append(body, aReqFamily(1))
		case "6":
			body = append(body, aReqFamily(2))
		}
	case "createperm":
		mt = stun.NewType(stun.MethodCreatePermission, stun.ClassRequest)
		ps := op.A.Peers
		if len(ps) == 0 && op.A.Peer != "" {
			ps = []string{op.A.Peer}
		}
		for _, p := range ps {
			a := c.peerAddr(p)
			body = append(body, peerAttr(op, a.IP, a.Port))
		}
	case "chanbind":
		mt = stun.NewType(stun.MethodChannelBind, stun.ClassRequest)
		a := c.peerAddr(op.A.Peer)
		body = append(body, aChannel(uint16(op.A.Chan)), peerAttr(op, a.IP, a.Port))
	case "connect":
		mt = stun.NewType(methodConnect, stun.ClassRequest)
		a := c.peerAddr(op.A.Peer)
		body = append(body, peerAttr(op, a.IP, a.Port))
	case "weird":
		// a properly authenticated request of method op.A.S whose body is exactly the raw
		// attributes of op.A.Raw ("tttt:hex;tttt:hex"): what the handlers parse after the
		// credentials have been accepted
		meth := map[string]stun.Method{"allocate": stun.MethodAllocate, "refresh": stun.MethodRefresh, "createperm": stun.MethodCreatePermission,
			"chanbind": stun.MethodChannelBind, "connect": methodConnect, "connbind": methodConnBind}[op.A.S]
		mt = stun.NewType(meth, stun.ClassRequest)
		for _, f := range strings.Split(op.A.Raw, ";") {
			var t int
			var hx string
			if i := strings.IndexByte(f, ':'); i > 0 {
				fmt.Sscanf(f[:i], "%x", &t)
				hx = f[i+1:]
			} else {
				continue
			}
			v, _ := hex.DecodeString(hx)
			body = append(body, rawAttr{stun.AttrType(t), v})
		}
	default:
		Fatalf("buildRequest: unknown kind %s", op.Kind)
	}
	setters := []stun.Setter{stun.NewTransactionIDSetter(tid), mt}
	if hasFlag(op, "unknownattr") {
		setters = append(setters, rawAttr{stun.AttrType(0x7777), []byte{1, 2, 3, 4}})
	}
	// "aftermi": the last body attribute(s) travel behind MESSAGE-INTEGRITY, where anybody on
	// the path could have put them: the request is authentic, those attributes are not part of it
	var after []stun.Setter
	if hasFlag(op, "aftermi") && withAuth && op.Kind != "binding" && len(body) > 0 {
		k := 1
		if op.Kind == "createperm" && len(body) > 1 {
			k = len(body) - 1 // the first peer is the genuine one
		}
		after = body[len(body)-k:]
		body = body[:len(body)-k]
	}
	setters = append(setters, body...)
	pre, post := c.credSetters(op, withAuth && op.Kind != "binding")
	setters = append(setters, pre...)
	if !hasFlag(op, "nofp") && len(after) == 0 {
		setters = append(setters, stun.Fingerprint)
	}
	m, err := stun.Build(setters...)
	if err != nil {
		Fatalf("stun.Build: %v", err)
	}
	if len(after) > 0 && m.Contains(stun.AttrMessageIntegrity) {
		for _, a := range after {
			_ = a.AddTo(m)
		}
		if !hasFlag(op, "nofp") {
			_ = stun.Fingerprint.AddTo(m)
		}
	}
	if post != nil {
		post(m)
		// fingerprint is stale after corruption; strip it by rebuilding without is complex: leave as is
	}
	return append([]byte(nil), m.Raw...), tid
}

func hasFlag(op *Op, f string) bool {
	for _, x := range op.A.Flags {
		if x == f {
			return true
		}
	}
	return false
}

// MakePayload builds the application payload for a data op: unique per (seed, actor, op).
func MakePayload(seed uint64, actor string, op *Op) []byte {
	n := op.A.Len
	r := NewRNG(Mix(seed, HashStr(actor), uint64(op.ID), 0xda7a))
	b := r.Bytes(n)
	switch op.A.Content {
	case "zero":
		for i := range b {
			b[i] = 0
		}
	case "stunlike", "stunvalid":
		if n >= 8 {
			b[0] &= 0x3F
			binary.BigEndian.PutUint32(b[4:8], 0x2112A442)
			if op.A.Content == "stunvalid" && n >= 20 {
				b[0], b[1] = 0x00, 0x01
				binary.BigEndian.PutUint16(b[2:4], uint16((n-20)/4*4))
			}
		}
	case "cookie0":
		// the STUN magic cookie as the first four bytes of the payload: inside a ChannelData frame
		// that is where a STUN header has it (bytes 4-8 of the datagram)
		if n >= 4 {
			binary.BigEndian.PutUint32(b[0:4], 0x2112A442)
		}
	case "chanlike":
		if n >= 4 {
			b[0] = 0x40 | (b[0] & 0x3F)
			l := n - 4
			if l > 0 {
				l = r.Intn(l + 1)
			}
			binary.BigEndian.PutUint16(b[2:4], uint16(l))
		}
	}
	// unique tag after any adversarial prefix, when there is room
	tag := []byte(fmt.Sprintf("#%s/%d/%d#", actor, op.ID, n))
	if n >= 8+len(tag) {
		copy(b[8:], tag)
	}
	return b
}

func (c *RawClient) sendWire(b []byte, it *Intent) {
	if !c.W.K.Free {
		c.W.Mon.RegisterIntent(ustr(c.Addr), b, it)
	}
	if c.W.P.Cfg.Listener == "tcp" {
		if !c.connUp {
			c.queue = append(c.queue, b)
			return
		}
		if c.conn != nil {
			_, _ = c.conn.Write(b)
		}
		return
	}
	c.W.Net.SendUDP(c.Addr, c.W.SrvAddr, b)
}

// Do executes one plan op of this client (driver context).
func (c *RawClient) Do(op *Op) {
	c.mu.Lock()
	defer c.mu.Unlock()
	switch op.Kind {
	case "binding", "allocate", "refresh", "createperm", "chanbind", "connect", "weird":
		mode := op.A.Cred
		if mode == "" {
			mode = "ok"
		}
		withAuth := mode != "none"
		if withAuth && c.nonce == "" && op.Kind != "binding" && !hasFlag(op, "blind") {
			withAuth = false // first get a challenge
		}
		b, tid := c.buildRequest(op, withAuth, 0)
		c.tids[op.ID] = tid
		if withAuth {
			c.sent[op.ID] = b
		}
		c.pending[tid] = &pendOp{op: op, authed: withAuth}
		c.sendWire(b, &Intent{Client: c.Spec.ID, OpID: op.ID, Kind: op.Kind, Cred: mode})
	case "send":
		p := MakePayload(c.W.P.Seed, c.Spec.ID, op)
		if len(p) > 65400 {
			p = p[:65400] // the STUN length field is 16 bits
		}
		a := c.peerAddr(op.A.Peer)
		setters := []stun.Setter{stun.NewTransactionIDSetter(c.newTID(op, 0)), stun.NewType(stun.MethodSend, stun.ClassIndication), peerAttr(op, a.IP, a.Port), aData(p)}
		if hasFlag(op, "dontfrag") {
			setters = append(setters, rawAttr{attrDontFragment, nil})
		}
		if !hasFlag(op, "nofp") {
			setters = append(setters, stun.Fingerprint)
		}
		m, err := stun.Build(setters...)
		if err != nil {
			Fatalf("build send: %v", err)
		}
		c.W.noteSubmission(c.Spec.ID, op, p)
		c.sendWire(append([]byte(nil), m.Raw...), &Intent{Client: c.Spec.ID, OpID: op.ID, Kind: "send"})
	case "chandata":
		p := MakePayload(c.W.P.Seed, c.Spec.ID, op)
		pad := c.W.P.Cfg.Listener == "tcp" || hasFlag(op, "pad")
		c.W.noteSubmission(c.Spec.ID, op, p)
		c.sendWire(buildChannelData(uint16(op.A.Chan), p, pad), &Intent{Client: c.Spec.ID, OpID: op.ID, Kind: "chandata"})
	case "raw":
		b, _ := hex.DecodeString(op.A.Raw)
		c.sendWire(b, &Intent{Client: c.Spec.ID, OpID: op.ID, Kind: "raw"})
	case "replay":
		// re-send another client's captured authentic message from this client's address
		if src := c.W.Clients[op.A.Target]; src != nil && src != c {
			src.mu.Lock()
			b, ok := src.sent[op.A.N]
			src.mu.Unlock()
			if ok {
				c.sendWire(b, &Intent{Client: c.Spec.ID, OpID: op.ID, Kind: "replay", Cred: "replayed"})
			}
		}
	case "retransmit":
		// same bytes again (same transaction id) as an earlier op of this client
		if b, ok := c.sent[op.A.N]; ok {
			c.sendWire(b, &Intent{Client: c.Spec.ID, OpID: op.ID, Kind: "retransmit", Cred: "ok"})
		}
	case "tcp_pause":
		// the application behind the control connection stops reading (a slow or stalled client)
		if c.conn != nil && c.connUp {
			c.conn.Pause()
		}
	case "tcp_resume":
		if c.conn != nil && c.connUp {
			conn := c.conn
			c.mu.Unlock() // Resume delivers the queued bytes through onStream, which takes the lock
			conn.Resume()
			c.mu.Lock()
		}
	case "tcp_reconnect":
		// a new control connection from the same address and port (the old one is gone)
		if c.conn != nil && c.connUp {
			_ = c.conn.Close()
			c.W.Mon.ControlClosed(ustr(c.Addr))
		}
		c.conn, c.connUp = nil, false
		c.mu.Unlock()
		c.ensureConn()
		c.mu.Lock()
	case "tcp_close":
		if c.conn != nil && c.connUp {
			if hasFlag(op, "rst") {
				c.conn.reset()
			} else {
				_ = c.conn.Close()
			}
			c.W.Mon.ControlClosed(ustr(c.Addr))
		}
	default:
		if !c.doTCPOp(op) {
			Fatalf("rawclient: unknown op kind %q", op.Kind)
		}
	}
}

func (c *RawClient) onWire(b []byte) {
	c.mu.Lock()
	defer c.mu.Unlock()
	c.onWireLocked(b)
}

func (c *RawClient) onWireLocked(b []byte) {
	now := c.W.K.Now()
	if msg, ok := decodeSTUN(b); ok {
		switch msg.Type.Class {
		case stun.ClassSuccessResponse, stun.ClassErrorResponse:
			c.Received = append(c.Received, RecvRec{T: now, Kind: "response", Msg: msg})
			c.onResponse(msg)
		case stun.ClassIndication:
			switch msg.Type.Method {
			case stun.MethodData:
				peer, _ := getXORAddr(msg, attrXORPeerAddress)
				data, _ := msg.Get(attrData)
				from := ""
				if peer != nil {
					from = ustr(peer)
				}
				c.Received = append(c.Received, RecvRec{T: now, Kind: "data", From: from, Data: data})
			case methodConnAttempt:
				if id, ok := getU32(msg, attrConnectionID); ok {
					c.ConnIDs = append(c.ConnIDs, id)
				}
				c.Received = append(c.Received, RecvRec{T: now, Kind: "connattempt", Msg: msg})
			}
		}
		return
	}
	if num, data, ok := parseChannelData(b); ok {
		c.Received = append(c.Received, RecvRec{T: now, Kind: "chandata", Chan: num, Data: data})
		return
	}
	c.Received = append(c.Received, RecvRec{T: now, Kind: "other", Data: b})
}

func (c *RawClient) onResponse(msg *stun.Message) {
	p := c.pending[msg.TransactionID]
	code := 0
	if msg.Type.Class == stun.ClassErrorResponse {
		code = getErrCode(msg)
	}
	var nc stun.Nonce
	var rl stun.Realm
	if nc.GetFrom(msg) == nil && rl.GetFrom(msg) == nil && (code == 401 || code == 438) {
		c.nonce = nc.String()
		c.realm = rl.String()
		if c.firstNonce == "" {
			c.firstNonce = c.nonce
		}
	}
	if msg.Type.Method == stun.MethodAllocate && msg.Type.Class == stun.ClassSuccessResponse {
		if r, ok := getXORAddr(msg, attrXORRelayedAddr); ok {
			c.Relay = r
		}
		if v, err := msg.Get(attrReservationTok); err == nil {
			c.Token = append([]byte(nil), v...)
		}
	}
	if msg.Type.Method == methodConnect && msg.Type.Class == stun.ClassSuccessResponse {
		if id, ok := getU32(msg, attrConnectionID); ok {
			c.ConnIDs = append(c.ConnIDs, id)
		}
	}
	if p == nil {
		return
	}
	delete(c.pending, msg.TransactionID)
	mode := p.op.A.Cred
	if mode == "" {
		mode = "ok"
	}
	retry := false
	switch {
	case code == 401 && !p.authed && mode != "none" && p.tries < 2:
		retry = true
	case code == 438 && p.authed && mode == "ok" && p.tries < 2 && !hasFlag(p.op, "noretry"):
		retry = true
	}
	if !retry || p.op.Kind == "connbind" {
		return // (a ConnectionBind sent on the control transport is not retried)
	}
	b, tid := c.buildRequest(p.op, true, p.tries+1)
	c.tids[p.op.ID] = tid
	c.sent[p.op.ID] = b
	c.pending[tid] = &pendOp{op: p.op, authed: true, tries: p.tries + 1}
	c.sendWire(b, &Intent{Client: c.Spec.ID, OpID: p.op.ID, Kind: p.op.Kind, Cred: mode})
}

// stream input (TCP control connection)
func (c *RawClient) onStream(b []byte) {
	c.mu.Lock()
	defer c.mu.Unlock()
	c.inbuf = append(c.inbuf, b...)
	for {
		n, ok := refFrameLen(c.inbuf)
		if !ok || n > len(c.inbuf) {
			return
		}
		f := c.inbuf[:n]
		c.inbuf = c.inbuf[n:]
		c.onWireLocked(f)
	}
}
