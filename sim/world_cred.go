package sim

import (
	"bytes"
	"crypto/md5"
	"fmt"
	"strconv"
	"strings"
	"testing"
	"time"

	"github.com/pion/stun/v3"
	"github.com/pion/turn/v5"
)

// CredWorld (C17, handler level): credentials are generated at one fake instant and
// validated at others. One "credgen" op creates a pair; "credcheck" ops call the handler.
type CredWorld struct {
	K *Kernel
	P *Plan
	LF *SimLoggerFactory
	user, pass string
	stamp int64 // the Unix second in the username
	genAt int64
	kind string
	opIdx int
	done bool
	checks int
	handlers map[string]turn.AuthHandler
}

func (w *CredWorld) viol(class string, key map[string]string, format string, args ...any) {
	w.K.Violate(&Violation{Property: "C17", Class: class, Key: key, Detail: fmt.Sprintf(format, args...)})
}

func lkey(user, realm, pass string) []byte {
	h := md5.Sum([]byte(user + ":" + realm + ":" + pass))
	return h[:]
}

func (w *CredWorld) exec(op *Op) {
	secret := w.P.Cfg.Secret
	realm := w.P.Cfg.Realm
	switch op.Kind {
	case "credgen":
		w.kind = op.A.S
		var err error
		if w.kind == "turnrest" {
			w.user, w.pass, err = turn.GenerateLongTermTURNRESTCredentials(secret, op.A.User, time.Duration(op.A.DurNS))
		} else {
			w.user, w.pass, err = turn.GenerateLongTermCredentials(secret, time.Duration(op.A.DurNS))
		}
		if err != nil {
			w.viol("generate-failed", nil, "credential generation failed: %v", err)
			return
		}
		ts := w.user
		if i := strings.IndexByte(ts, ':'); i >= 0 {
			ts = ts[:i]
		}
		w.stamp, _ = strconv.ParseInt(ts, 10, 64)
		w.genAt = time.Now().Unix()
		// the stamp must be generation time + duration, to the second
		want := time.Now().Add(time.Duration(op.A.DurNS)).Unix()
		if w.stamp != want {
			w.viol("wrong-stamp", nil, "username %q carries %d, generation instant + duration is %d", w.user, w.stamp, want)
		}
	case "credcheck":
		if w.user == "" {
			return
		}
		// one long-lived handler per secret, as a server has (a handler that remembers what it
		// accepted before must still honour the expiry); now and then a fresh one
		hsecret := secret
		if op.A.S == "othersecret" {
			hsecret = secret + "x"
		}
		if w.handlers == nil {
			w.handlers = map[string]turn.AuthHandler{}
		}
		h := w.handlers[hsecret]
		if h == nil || hasFlag(op, "fresh-handler") {
			if w.kind == "turnrest" {
				h = turn.LongTermTURNRESTAuthHandler(hsecret, w.LF.NewLogger("auth"))
			} else {
				h = turn.NewLongTermAuthHandler(hsecret, w.LF.NewLogger("auth"))
			}
			w.handlers[hsecret] = h
		}
		user, pass := w.user, w.pass
		mut := op.A.Content
		switch mut {
		case "user-char":
			b := []byte(user)
			i := op.A.N % len(b)
			if b[i] == '1' {
				b[i] = '2'
			} else {
				b[i] = '1'
			}
			user = string(b)
		case "user-alpha":
			b := []byte(user)
			b[op.A.N%len(b)] = 'x'
			user = string(b)
		case "pass-char":
			b := []byte(pass)
			i := op.A.N % len(b)
			if b[i] == 'A' {
				b[i] = 'B'
			} else {
				b[i] = 'A'
			}
			pass = string(b)
		case "later-stamp":
			// extend one's own validity: same password, later timestamp
			rest := ""
			if i := strings.IndexByte(user, ':'); i >= 0 {
				rest = user[i:]
			}
			user = strconv.FormatInt(w.stamp+3600, 10) + rest
		}
		_, key, ok := h(&turn.RequestAttributes{Username: user, Realm: realm, Method: stun.MethodAllocate})
		now := time.Now().Unix()
		w.checks++
		authenticates := ok && bytes.Equal(key, lkey(user, realm, pass))
		genuine := mut == "" && op.A.S != "othersecret"
		switch {
		case genuine && now < w.stamp:
			if !authenticates {
				w.viol("rejected-before-expiry", kv("kind", w.kind), "genuine pair %q rejected %d s before its stamped expiry (ok=%v)", user, w.stamp-now, ok)
			} else if ok && !bytes.Equal(key, lkey(user, realm, pass)) {
				w.viol("wrong-key", nil, "handler key is not MD5(user:realm:password)")
			}
			w.K.Stats.Probe("accepted_before_expiry")
		case genuine && now > w.stamp:
			if ok {
				w.viol("accepted-after-expiry", kv("kind", w.kind), "pair %q accepted %d s after its stamped expiry", user, now-w.stamp)
			}
			w.K.Stats.Probe("rejected_after_expiry")
		case genuine:
			w.K.Stats.Probe("checked_in_stamped_second")
		default:
			if authenticates {
				w.viol("forged-authenticates", kv("mutation", mut+op.A.S), "forged pair (user %q) authenticates", user)
			}
			w.K.Stats.Probe("forged_checked")
		}
	}
}

func (w *CredWorld) scheduleNext() {
	if w.opIdx >= len(w.P.Ops) {
		w.K.At(w.K.Now()+sec, "done", func() { w.done = true })
		return
	}
	op := &w.P.Ops[w.opIdx]
	w.opIdx++
	at := w.K.Now() + op.At.GapNS
	if op.At.Ref == "abs" {
		at = op.At.OffNS
		if at < w.K.Now() {
			at = w.K.Now()
		}
	}
	w.K.At(at, fmt.Sprintf("op:%d:%s", op.ID, op.Kind), func() {
		w.K.Stats.Op(op.Kind)
		w.K.OpIssued(op.ID)
		done := make(chan struct{})
		go func() { w.exec(op); close(done) }()
		<-done
		w.scheduleNext()
	})
}

func runCredWorld(t *testing.T, k *Kernel, p *Plan, rec *RunRecord) {
	w := &CredWorld{K: k, P: p, LF: NewLoggerFactory(k, false)}
	k.Strict = false // the handler runs synchronously with the driver here
	k.At(k.Now()+ms, "begin", w.scheduleNext)
	reason := k.Drive(100000, nil, func() bool { return w.done })
	fillRecord(rec, k, reason)
	rec.Requests = w.checks + 3
	rec.States = w.checks
}
