package sim

import (
	"bytes"
	"os"
	"runtime"
	"crypto/md5"
	"encoding/hex"
	"fmt"
	"net"
	"sort"
	"strings"
	"sync"

	"github.com/pion/stun/v3"
)

// Intent is what a scripted sender declares about a message it puts on the wire.
type Intent struct {
	Client string // client id ("c1")
	OpID   int
	Kind   string
	Cred   string // ok | none | wrongkey | ... (see rawclient)
	User   string
}

type mReq struct {
	Client   string // address
	TID      [12]byte
	Method   stun.Method
	Msg      *stun.Message
	Strict   *stun.Message // Msg without what follows MESSAGE-INTEGRITY, when that differs
	Raw      []byte
	TRecv    int64
	Answered bool
	Src      string // reader that received it (listener socket or control connection)
	RC       int    // that reader's read-call count when it was received
	Auth     int // -1 no, 0 maybe, 1 yes
	AuthWhy  string
	User     string
	Intent   *Intent
}

type mSub struct { // client -> peer submission received by the server
	Client  string
	IsChan  bool
	Chan    uint16
	Peer    string
	Payload []byte
	TRecv   int64
	Done    bool
	Judged  bool // must-deliver verdict already issued at an idle point
	Lost    bool // ... and it was "not relayed"
	Whole   bool
	MsgLen  int
}

type mInb struct { // peer datagram received at a relay socket
	RelayKey string
	From     string
	Payload  []byte // as sent by the peer (ground truth)
	NRead    int
	TRecv    int64
	Done     bool
	Judged   bool
}

type nonceInfo struct{ MintLo, First, Last int64 } // minted somewhere in [MintLo, First]

type evRec struct {
	Kind string
	Key  string
	T    int64
}

// Monitor observes every socket of the server world and judges the properties.
type Monitor struct {
	connectReqs map[string]int // Connect requests received, by client|peer
	K    *Kernel
	Net  *Net
	P    *Plan
	M    *Model
	mu   sync.Mutex

	ListenerKey string
	users       map[string]string
	denyPeer    map[string]bool
	denyClient  map[string]bool
	nonces      map[string]*nonceInfo
	intents     map[string]*Intent
	reqs        map[string][]*mReq // client|tid
	subs        []*mSub
	inbs        []*mInb
	events      []evRec
	evCount     map[string]int
	doneReqs    int
	maybes      int
	verdicts    int
	states      map[string]struct{}
	ioFaultyListener bool // a listener write failed: must-respond obligations off for that request
	serverClosed     bool
	serverClosedAt   int64 // (0 while open)
	srvWriteFailed   map[string]bool
	MustMax          int // peer->client payloads up to this size must be delivered (loss-free)
	NoMust           bool
	Idles            int
	tcpCtl           map[*TCPConn]*ctlStream
	relayErr         map[string]int64 // relay key -> time of injected failure
	relayWriteErr    map[string]bool
	ctlEnded         map[string]int64 // client -> time its TCP control connection ended (server view)
	orphanDeletes    map[string][]int64 // allocation-deleted events seen before the Allocate response
	leakReported     map[string]bool
	Refresh0Err      map[string]int // client -> error code of its last Refresh(0), if it was not followed by a success
	relayConns       []*relayConn
	resv             map[string]*mResv
	halfOpenReported map[uint32]bool
	dataConns        map[uint32]*TCPConn
	pipeClosed       []pipeClose
	unboundReported  map[uint32]bool
	readCalls        map[string]int // reader -> number of read calls so far (handler completion)
	anyMsg           map[string]bool // client|tid of every STUN message received, of any class
	curSrc           string
	InboundMTU       int
}

func NewMonitor(k *Kernel, n *Net, p *Plan) *Monitor {
	perm := int64(p.Cfg.PermTimeoutS) * 1e9
	if perm == 0 {
		perm = 300e9
	}
	ch := int64(p.Cfg.ChanTimeoutS) * 1e9
	if ch == 0 {
		ch = 600e9
	}
	life := int64(p.Cfg.AllocLifeS) * 1e9
	if life == 0 {
		life = 600e9
	}
	m := &Monitor{K: k, Net: n, P: p, M: NewModel(perm, ch, life), users: map[string]string{}, denyPeer: map[string]bool{},
		denyClient: map[string]bool{}, nonces: map[string]*nonceInfo{}, intents: map[string]*Intent{}, reqs: map[string][]*mReq{},
		evCount: map[string]int{}, states: map[string]struct{}{}, srvWriteFailed: map[string]bool{}, MustMax: 1400,
		tcpCtl: map[*TCPConn]*ctlStream{}, relayErr: map[string]int64{}, relayWriteErr: map[string]bool{}, orphanDeletes: map[string][]int64{}, leakReported: map[string]bool{}, Refresh0Err: map[string]int{}, dataConns: map[uint32]*TCPConn{}, unboundReported: map[uint32]bool{}, halfOpenReported: map[uint32]bool{}, readCalls: map[string]int{}, connectReqs: map[string]int{}, anyMsg: map[string]bool{}, ctlEnded: map[string]int64{}}
	m.InboundMTU = p.Cfg.InboundMTU
	if m.InboundMTU == 0 {
		m.InboundMTU = 1600
	}
	for _, u := range p.Cfg.Users {
		m.users[u.Name] = u.Pass
	}
	for _, ip := range p.Cfg.DenyPeerIPs {
		m.denyPeer[net.ParseIP(ip).String()] = true
	}
	for _, c := range p.Cfg.DenyClients {
		m.denyClient[c] = true
	}
	m.M.Stalls = k.StallIntervals
	return m
}

func (m *Monitor) v(props []string, class string, key map[string]string, format string, args ...any) {
	for _, p := range props {
		m.K.Violate(&Violation{Property: p, Class: class, Key: key, Detail: fmt.Sprintf(format, args...)})
	}
}

func kv(kvs ...string) map[string]string {
	out := map[string]string{}
	for i := 0; i+1 < len(kvs); i += 2 {
		out[kvs[i]] = kvs[i+1]
	}
	return out
}

func (m *Monitor) RegisterIntent(from string, raw []byte, it *Intent) {
	h := md5.Sum(raw)
	m.mu.Lock()
	m.intents[from+"|"+hex.EncodeToString(h[:])] = it
	m.mu.Unlock()
}

func (m *Monitor) vetoed(client string, ip net.IP) bool {
	return m.denyPeer[ip.String()] || m.denyClient[client]
}

// ---------------------------------------------------------------- authenticity (C03)

// authentic decides independently whether a request carries valid long-term credentials:
// MESSAGE-INTEGRITY under MD5(user:realm:pass), a nonce this server instance minted, not
// older than an hour. 1 yes, -1 no, 0 undecidable (age inside the resolution band).
func (m *Monitor) authentic(msg *stun.Message, now int64) (int, string, string) {
	if !msg.Contains(stun.AttrMessageIntegrity) {
		return -1, "no-integrity", ""
	}
	var un stun.Username
	var rl stun.Realm
	var nc stun.Nonce
	if un.GetFrom(msg) != nil {
		return -1, "no-username", ""
	}
	if rl.GetFrom(msg) != nil {
		return -1, "no-realm", un.String()
	}
	if nc.GetFrom(msg) != nil {
		return -1, "no-nonce", un.String()
	}
	pass, ok := m.users[un.String()]
	if !ok {
		return -1, "unknown-user", un.String()
	}
	key := stun.NewLongTermIntegrity(un.String(), rl.String(), pass)
	chk := &stun.Message{Raw: append([]byte(nil), msg.Raw...)}
	if chk.Decode() != nil {
		return -1, "undecodable", un.String()
	}
	if err := key.Check(chk); err != nil {
		return -1, "bad-integrity", un.String()
	}
	ni, ok := m.nonces[nc.String()]
	if !ok {
		// the same number in another spelling (case / leading zeros of base-36) is the same nonce
		for s, inf := range m.nonces {
			if strings.EqualFold(strings.TrimLeft(s, "0"), strings.TrimLeft(nc.String(), "0")) {
				ni, ok = inf, true
				break
			}
		}
	}
	if !ok {
		return -1, "foreign-nonce", un.String()
	}
	switch {
	case now-ni.MintLo < 59*60e9:
		return 1, "", un.String()
	case now-ni.First > 61*60e9:
		return -1, "stale-nonce", un.String()
	}
	return 0, "nonce-age-band", un.String()
}

// ---------------------------------------------------------------- observer: UDP

func (m *Monitor) UDPReadCall(s *UDPSock) {
	if s.Role == "listener" {
		m.mu.Lock()
		m.readCalls["udp:"+s.Info.Addr]++
		m.mu.Unlock()
	}
}

// handlerDone: the reader that received r has asked for its next message, i.e. the handler
// of r has returned.
func (m *Monitor) handlerDone(r *mReq) bool {
	return r.Src == "" || m.readCalls[r.Src] > r.RC
}

func (m *Monitor) UDPRead(s *UDPSock, d *Dgram, n int) {
	now := m.K.Now()
	m.mu.Lock()
	defer m.mu.Unlock()
	switch {
	case s.Role == "listener":
		m.curSrc = "udp:" + s.Info.Addr
		m.srvRecv(ustr(d.From), d.Payload, n == len(d.Payload) && n < m.InboundMTU, now)
	case s.Role == "relay":
		m.inbs = append(m.inbs, &mInb{RelayKey: s.Info.Addr, From: ustr(d.From), Payload: d.Payload, NRead: n, TRecv: now})
		if len(m.M.ByRelay[ustr(d.From)]) > 0 {
			m.K.Stats.Probe("hairpin_arrival") // the sender is a relayed address of this very server
		}
	}
}

func (m *Monitor) UDPWrite(s *UDPSock, to *net.UDPAddr, b []byte) {
	now := m.K.Now()
	m.mu.Lock()
	defer m.mu.Unlock()
	switch {
	case s.Role == "listener":
		m.srvSend(ustr(to), b, now)
	case s.Role == "relay":
		m.relayWrite(s.Info.Addr, ustr(to), b, now)
	}
}

func (m *Monitor) UDPDeliverScripted(s *UDPSock, d *Dgram) {}

// IOFaulted: the plan made a socket call fail.
func (m *Monitor) IOFaulted(role, op, addr string) {
	now := m.K.Now()
	m.mu.Lock()
	defer m.mu.Unlock()
	switch {
	case role == "relay" && (op == "ReadFrom" || op == "Accept"):
		if _, ok := m.relayErr[addr]; !ok {
			m.relayErr[addr] = now
		}
		for _, a := range m.M.ByRelay[addr] {
			m.markEnding(a, now, "relay-failure")
		}
	case op == "Close":
		// Close reported an error; the socket is closed nevertheless
	case role == "relay" && op == "WriteTo":
		i := strings.Index(addr, ">")
		m.relayWriteErr[addr[:i]] = true
	case role == "listener" && op == "WriteTo":
		i := strings.Index(addr, ">")
		m.srvWriteFailed[addr[i+1:]] = true
	case role == "listener-conn" && op == "TornWrite":
		m.v([]string{"C05", "C10", "C19"}, "torn-frame", nil, "a write toward a stream client ended early (%s) and the connection stays in use: what follows the torn frame cannot be framed", addr)
	case role == "listener-conn" && op == "DroppedWrite":
		// a write deadline made the server give up a whole frame while it goes on using the
		// connection. Relayed data may be dropped toward a receiver that does not read; a
		// response may not: its request is never answered (a stream has no retransmissions to
		// count on), and the monitor has already credited it as sent
		i := strings.LastIndex(addr, "|")
		if raw, err := hex.DecodeString(addr[i+1:]); err == nil && len(raw) >= 20 && raw[0]&0xC0 == 0 {
			mt := stun.MessageType{}
			mt.ReadValue(uint16(raw[0])<<8 | uint16(raw[1]))
			if mt.Class == stun.ClassSuccessResponse || mt.Class == stun.ClassErrorResponse {
				m.v([]string{"C19", "C09"}, "no-response", kv("method", methodName(mt.Method), "how", "write-given-up"), "the %s response toward a stream client was given up at a write deadline before its first byte (%s) and the connection stays in use: that request is never answered", methodName(mt.Method), addr[:i])
			}
		}
	case role == "listener-conn" && op == "Write":
		i := strings.LastIndex(addr, ">")
		m.srvWriteFailed[addr[i+1:]] = true
	case role == "listener" && op == "Accept":
		if !m.serverClosed {
			m.serverClosedAt = m.K.Now()
		}
		m.serverClosed = true
	}
}
func (m *Monitor) SockOpen(info *SockInfo)                {}
func (m *Monitor) SockClose(info *SockInfo)               {}

// srvRecv: bytes handed to the server from a client transport address.
func (m *Monitor) srvRecv(client string, b []byte, whole bool, now int64) {
	if !whole {
		m.K.Stats.Probe("client_msg_exceeds_inbound_mtu")
		return
	}
	if len(b) > 0 && b[0]&0xC0 == 0x40 {
		// the two leading bits say ChannelData, whatever the rest looks like
		if num, data, ok := parseChannelData(b); ok {
			m.subs = append(m.subs, &mSub{Client: client, IsChan: true, Chan: num, Payload: data, TRecv: now, Whole: true, MsgLen: len(b)})
			return
		}
		// declared length exceeds the datagram: not ChannelData; the bytes may still parse as STUN
	}
	if msg, ok := decodeSTUN(b); ok {
		m.anyMsg[client+"|"+string(msg.TransactionID[:])] = true
		switch msg.Type.Class {
		case stun.ClassRequest:
			// what follows MESSAGE-INTEGRITY is not covered by it and must be ignored (RFC 5389
			// section 15.4; FINGERPRINT excepted): the model reads the request without it
			r := &mReq{Client: client, TID: msg.TransactionID, Method: msg.Type.Method, Msg: msg, Raw: b, TRecv: now, Src: m.curSrc, RC: m.readCalls[m.curSrc]}
			if view := stripAfterMI(msg); len(view.Attributes) != len(msg.Attributes) {
				r.Strict = view // the request as an agent has to read it (see respCreatePerm)
				m.K.Stats.Probe("attrs_after_integrity")
			}
			r.Auth, r.AuthWhy, r.User = m.authentic(msg, now)
			if msg.Type.Method == stun.MethodConnect {
				if pa, okPA := getXORAddr(msg, attrXORPeerAddress); okPA {
					m.connectReqs[client+"|"+ustr(pa)]++
				}
			}
			h := md5.Sum(b)
			r.Intent = m.intents[client+"|"+hex.EncodeToString(h[:])]
			k := client + "|" + string(msg.TransactionID[:])
			m.reqs[k] = append(m.reqs[k], r)
		case stun.ClassIndication:
			if msg.Type.Method == stun.MethodSend {
				peer, ok1 := getXORAddr(msg, attrXORPeerAddress)
				data, err := msg.Get(attrData)
				if ok1 && err == nil {
					m.subs = append(m.subs, &mSub{Client: client, Peer: ustr(peer), Payload: data, TRecv: now, Whole: true, MsgLen: len(b)})
				}
			}
		}
		return
	}
	if num, data, ok := parseChannelData(b); ok {
		m.subs = append(m.subs, &mSub{Client: client, IsChan: true, Chan: num, Payload: data, TRecv: now, Whole: true, MsgLen: len(b)})
	}
}

func (m *Monitor) findReq(client string, tid [12]byte, method stun.Method) *mReq {
	rs := m.reqs[client+"|"+string(tid[:])]
	var last, firstOpen *mReq
	for _, r := range rs {
		if r.Method == method {
			if !r.Answered {
				// several copies of one request (duplicates, retransmissions) can be
				// outstanding: the response belongs to the copy whose handler is running
				if !m.handlerDone(r) {
					return r
				}
				if firstOpen == nil {
					firstOpen = r
				}
			}
			last = r
		}
	}
	if firstOpen != nil {
		return firstOpen
	}
	return last
}

// srvSend: bytes the server writes toward a client transport address.
func (m *Monitor) srvSend(to string, b []byte, now int64) {
	if msg, ok := decodeSTUN(b); ok {
		switch msg.Type.Class {
		case stun.ClassSuccessResponse, stun.ClassErrorResponse:
			m.onResponse(to, msg, b, now)
		case stun.ClassIndication:
			switch msg.Type.Method {
			case stun.MethodData:
				peer, ok1 := getXORAddr(msg, attrXORPeerAddress)
				data, err := msg.Get(attrData)
				if !ok1 || err != nil {
					m.v([]string{"C05"}, "malformed-indication", nil, "Data indication to %s lacks peer address or data", to)
					return
				}
				m.forward(to, false, 0, ustr(peer), data, now)
			case methodConnAttempt:
				m.onConnAttempt(to, msg, now)
			default:
				m.v([]string{"C19"}, "unexpected-emission", kv("what", methodName(msg.Type.Method)), "server sent %s indication to %s", methodName(msg.Type.Method), to)
			}
		default:
			m.v([]string{"C19"}, "unexpected-emission", kv("what", "request"), "server sent a request to %s", to)
		}
		return
	}
	if len(b) >= 4 {
		num := uint16(b[0])<<8 | uint16(b[1])
		l := int(b[2])<<8 | int(b[3])
		if num < 0x4000 || num > 0x7FFF {
			m.v([]string{"C08"}, "out-of-range-emitted", kv("n", rangeClass(num)), "server emitted non-STUN message with leading number 0x%04x to %s", num, to)
		}
		if l <= len(b)-4 {
			m.forward(to, true, num, "", b[4:4+l], now)
			if pad := b[4+l:]; len(pad) > 3 || len(b)%4 != 0 && m.P.Cfg.Listener == "tcp" {
				m.v([]string{"C05"}, "bad-padding", nil, "ChannelData to %s: %d trailing bytes, total %d", to, len(pad), len(b))
			}
			return
		}
	}
	m.v([]string{"C05", "C19"}, "unparseable-emission", nil, "server wrote %d unparseable bytes to %s", len(b), to)
}

func attrSig(msg *stun.Message) string {
	var parts []string
	for _, a := range msg.Attributes {
		if a.Type == stun.AttrMessageIntegrity || a.Type == stun.AttrFingerprint {
			continue
		}
		parts = append(parts, fmt.Sprintf("%04x=%x", uint16(a.Type), a.Value))
	}
	return strings.Join(parts, ",")
}

func (m *Monitor) onResponse(to string, msg *stun.Message, raw []byte, now int64) {
	r := m.findReq(to, msg.TransactionID, msg.Type.Method)
	if r == nil && m.anyMsg[to+"|"+string(msg.TransactionID[:])] && msg.Type.Class == stun.ClassErrorResponse {
		// an error answer to a non-request message (e.g. an indication carrying an unknown
		// comprehension-required attribute): correlated, and it changes nothing
		return
	}
	if r == nil {
		// why? classify for C19
		for k, rs := range m.reqs {
			if strings.HasSuffix(k, "|"+string(msg.TransactionID[:])) && len(rs) > 0 {
				m.v([]string{"C19", "C04"}, "wrong-destination", nil, "%s response with transaction id of a request from %s was sent to %s",
					methodName(msg.Type.Method), rs[0].Client, to)
				return
			}
		}
		m.v([]string{"C19"}, "wrong-tid", kv("method", methodName(msg.Type.Method)), "response %s-%s to %s matches no request received from that address",
			methodName(msg.Type.Method), className(msg.Type.Class), to)
		return
	}
	first := !r.Answered
	r.Answered = true
	m.doneReqs++
	I := ivl{r.TRecv, now}
	if now > r.TRecv {
		// the credentials were checked at some instant of the handling interval: a nonce that
		// crosses its hour in between is undecided
		if a2, _, _ := m.authentic(r.Msg, now); a2 != r.Auth && (r.Auth > 0 || r.AuthWhy == "stale-nonce" || a2 > 0) {
			r.Auth = 0
		}
	}
	ok := msg.Type.Class == stun.ClassSuccessResponse
	code := 0
	if !ok {
		code = getErrCode(msg)
		if code == 401 || code == 438 {
			var nc stun.Nonce
			var rl stun.Realm
			hasN, hasR := nc.GetFrom(msg) == nil, rl.GetFrom(msg) == nil
			needs := r.Auth < 0 && (r.AuthWhy == "no-integrity" || r.AuthWhy == "stale-nonce")
			if needs && (!hasN || !hasR) {
				m.v([]string{"C03"}, "challenge-unusable", kv("code", itoa(code)), "%d challenge without NONCE/REALM", code)
			}
			if hasN && hasR {
				if rl.String() != m.P.Cfg.Realm {
					m.v([]string{"C03"}, "challenge-unusable", kv("code", itoa(code)), "challenge realm %q != configured %q", rl.String(), m.P.Cfg.Realm)
				}
				if ni := m.nonces[nc.String()]; ni == nil {
					m.nonces[nc.String()] = &nonceInfo{MintLo: r.TRecv, First: now, Last: now}
				} else {
					ni.Last = now
				}
			}
		}
	}
	_ = first
	m.K.Logf("resp %s %s-%s code=%d", m.Net.names[to], methodName(msg.Type.Method), className(msg.Type.Class), code)
	// ---- credentials (C03)
	if ok && msg.Type.Method != stun.MethodBinding {
		if r.Auth < 0 {
			m.v([]string{"C03"}, "defective-accepted", kv("method", methodName(r.Method), "defect", r.AuthWhy),
				"%s from %s succeeded although credentials are defective: %s", methodName(r.Method), to, r.AuthWhy)
		}
	}
	if !ok && r.Auth > 0 && (code == 401 || code == 438) && msg.Contains(stun.AttrNonce) {
		m.v([]string{"C03"}, "authentic-rejected", kv("method", methodName(r.Method), "code", itoa(code)),
			"%s from %s with valid credentials was challenged with %d", methodName(r.Method), to, code)
	}
	if r.Auth < 0 && (r.AuthWhy == "no-integrity" || r.AuthWhy == "stale-nonce") && r.Method != stun.MethodBinding && m.P.Cfg.Auth != "none" {
		want := 401
		if r.AuthWhy == "stale-nonce" {
			want = 438
		}
		if ok || (code != want && code != 420) {
			m.v([]string{"C03"}, "no-challenge", kv("method", methodName(r.Method), "why", r.AuthWhy),
				"%s (%s) answered with class=%s code=%d, want %d challenge", methodName(r.Method), r.AuthWhy, className(msg.Type.Class), code, want)
		}
	}
	switch r.Method {
	case stun.MethodBinding:
		m.respBinding(r, msg, ok, to)
	case stun.MethodAllocate:
		m.respAllocate(r, msg, ok, code, I)
	case stun.MethodRefresh:
		m.respRefresh(r, msg, ok, code, I)
	case stun.MethodCreatePermission:
		m.respCreatePerm(r, msg, ok, code, I)
	case stun.MethodChannelBind:
		m.respChannelBind(r, msg, ok, code, I)
	case methodConnect:
		m.respConnect(r, msg, ok, code, I)
	case methodConnBind:
		m.respConnBind(r, msg, ok, code, I)
	}
}

func (m *Monitor) respBinding(r *mReq, msg *stun.Message, ok bool, to string) {
	if !ok {
		return
	}
	var x stun.XORMappedAddress
	if err := x.GetFrom(msg); err != nil {
		m.v([]string{"C19"}, "wrong-mapped-address", kv("method", "binding"), "Binding success without XOR-MAPPED-ADDRESS")
		return
	}
	src := mustUDPAddr(to)
	if !x.IP.Equal(src.IP) || x.Port != src.Port {
		m.v([]string{"C19"}, "wrong-mapped-address", kv("method", "binding"), "Binding to %s reports %s:%d", to, x.IP, x.Port)
	}
}

// unclaimedCreation: up to t the library has reported more allocations created for client than
// the model has made for it.
func (m *Monitor) unclaimedCreation(client string, t int64) bool {
	n := 0
	for _, e := range m.events {
		if e.Kind == "alloc-created" && e.Key == client && e.T <= t {
			n++
		}
	}
	return n > len(m.M.Allocs[client])
}

func (m *Monitor) ownerAllocs(r *mReq, I ivl) (poss []*mAlloc, def *mAlloc) {
	for _, a := range m.M.Current(r.Client, I.Lo, I.Hi) {
		poss = append(poss, a)
		if m.M.DefinitelyAlive(a, I.Lo, I.Hi) {
			def = a
		}
	}
	return
}

func plainUDPTransport(msg *stun.Message) bool {
	v, err := msg.Get(attrReqTransport)
	return err == nil && len(v) == 4 && v[0] == 17
}

type mResv struct {
	Port int
	IP   string
	At   ivl
	Used bool
}

// tokenOf: the reservation the request's RESERVATION-TOKEN names, if the monitor saw it issued.
func (m *Monitor) tokenOf(r *mReq) *mResv {
	if v, err := r.Msg.Get(attrReservationTok); err == nil && m.resv != nil {
		return m.resv[string(v)]
	}
	return nil
}

// portBusy: some allocation may hold the reserved relay port during I.
func (m *Monitor) portBusy(rv *mResv, I ivl) bool {
	for _, a := range m.M.ByRelay[net.JoinHostPort(rv.IP, itoa(rv.Port))] {
		if m.M.PossiblyAlive(a, I.Lo, I.Hi) {
			return true
		}
	}
	return false
}

func (m *Monitor) expectedLifetime(msg *stun.Message) (want int64, either bool) {
	if v, ok := getU32(msg, attrLifetime); ok {
		if int64(v) < 3600 {
			return int64(v) * 1e9, false
		}
		return m.M.DefaultLife, false
	}
	if msg.Contains(attrLifetime) {
		return m.M.DefaultLife, true // malformed attribute: not judged
	}
	return m.M.DefaultLife, false
}

func (m *Monitor) respAllocate(r *mReq, msg *stun.Message, ok bool, code int, I ivl) {
	poss, def := m.ownerAllocs(r, I)
	if !ok {
		if rv := m.tokenOf(r); rv != nil && r.Auth > 0 && code != 401 && code != 438 && !rv.Used && I.Hi < rv.At.Lo+30e9 && len(poss) == 0 &&
			!r.Msg.Contains(attrEvenPort) && !r.Msg.Contains(attrReqAddrFamily) && plainUDPTransport(r.Msg) && len(m.K.StallIntervals()) == 0 && !m.srvWriteFailed[r.Client] && !m.portBusy(rv, I) {
			// the token is in range, has not expired, its port is free, and nothing else is wrong
			// with the request: an earlier *refused* request that carried it must not have used it up
			m.v([]string{"C19"}, "reservation-refused", kv("code", itoa(code)), "Allocate from %s with a valid, unexpired reservation token (port %d, %d ms old) answered %d", r.Client, rv.Port, (I.Lo-rv.At.Hi)/1e6, code)
		}
		if code == 437 && len(poss) == 0 && r.Auth > 0 && !m.pendingAllocateOther(r) && len(m.K.StallIntervals()) == 0 {
			m.v([]string{"C04", "C19"}, "cross-talk", kv("what", "allocate-437-without-allocation"),
				"Allocate from %s answered 437 (allocation mismatch) although that 5-tuple has no allocation: another 5-tuple's allocation was found for it", r.Client)
		}
		if def != nil && r.Auth > 0 && def.TID == r.TID && code != 401 && code != 438 {
			// whether or not the first success response got through, the allocation exists:
			// its retransmitted request is answered with that success again
			m.v([]string{"C19"}, "retry-not-idempotent", kv("what", "error", "code", itoa(code)),
				"retransmitted Allocate (transaction id of the live allocation of %s) answered %d instead of the same success", r.Client, code)
		}
		if def != nil && r.Auth > 0 && def.TID != r.TID && code != 437 && code != 401 && code != 438 && code != 420 {
			// (420 rejects the message at the STUN layer - an unknown comprehension-required
			// attribute, RFC 5389 7.3.1 - before the TURN rules are consulted)
			m.v([]string{"C19", "C04"}, "second-allocate-not-437", kv("code", itoa(code)),
				"Allocate on a 5-tuple with a live allocation answered %d", code)
		}
		return
	}
	relay, okR := getXORAddr(msg, attrXORRelayedAddr)
	life, okL := getU32(msg, attrLifetime)
	if !okR || !okL {
		m.v([]string{"C19"}, "malformed-success", kv("method", "allocate"), "Allocate success lacks relayed address or lifetime")
		return
	}
	if tok, err := msg.Get(attrReservationTok); err == nil && r.Auth > 0 {
		if m.resv == nil {
			m.resv = map[string]*mResv{}
		}
		if m.resv[string(tok)] == nil {
			m.resv[string(tok)] = &mResv{Port: relay.Port + 1, IP: relay.IP.String(), At: I}
		}
	}
	if rv := m.tokenOf(r); rv != nil && r.Auth > 0 {
		if relay.Port != rv.Port {
			m.v([]string{"C19"}, "reservation-wrong-port", nil, "Allocate with the reservation token of port %d was given relayed port %d", rv.Port, relay.Port)
		}
		rv.Used = true
	}
	sig := attrSig(msg)
	for _, a := range poss {
		if a.TID == r.TID {
			// retransmission: must be the same answer and must not create anything
			if a.RespSig == sig && !(m.P.Cfg.Events && !m.M.DefinitelyAlive(a, I.Lo, I.Hi) && m.unclaimedCreation(r.Client, I.Hi)) {
				m.K.Stats.Probe("allocate_retransmit_answered")
				return
			}
			// (equal attributes do not prove a cached answer: out of a small port range a new
			// allocation can be given the old port. When the earlier allocation may have ended
			// while this request was handled and the library has reported more allocations
			// created for this 5-tuple than the model knows, this is such a new allocation.)
			if m.M.DefinitelyAlive(a, I.Lo, I.Hi) {
				m.v([]string{"C19"}, "retry-not-idempotent", kv("what", "attributes"), "retransmitted Allocate got different attributes: %s vs %s", a.RespSig, sig)
				return
			}
			// the earlier allocation may have ended while this request was being handled:
			// then this is a legitimate new allocation
			m.K.Stats.Probe("allocate_retransmit_after_end")
		}
	}
	if def != nil {
		m.v([]string{"C04", "C19"}, "two-allocs-one-tuple", nil, "second Allocate (new transaction id) succeeded on %s while an allocation is alive", r.Client)
	}
	if r.Auth < 0 {
		return // already reported; do not create model state from a forged request
	}
	// mapped address
	var x stun.XORMappedAddress
	src := mustUDPAddr(r.Client)
	if err := x.GetFrom(msg); err != nil || !x.IP.Equal(src.IP) || x.Port != src.Port {
		m.v([]string{"C19"}, "wrong-mapped-address", kv("method", "allocate"), "Allocate from %s reports mapped %v:%d", r.Client, x.IP, x.Port)
	}
	// lifetime granted
	want, either := m.expectedLifetime(r.Msg)
	if !either && int64(life)*1e9 != want {
		req, _ := getU32(r.Msg, attrLifetime)
		m.v([]string{"C06"}, "wrong-granted-lifetime", kv("method", "allocate"), "Allocate requested %d s (default %d s) granted %d s", req, m.M.DefaultLife/1e9, life)
	}
	tcp := false
	if v, err := r.Msg.Get(attrReqTransport); err == nil && len(v) == 4 && v[0] == 6 {
		tcp = true
	}
	Ic := I
	for _, o := range m.M.Allocs[r.Client] {
		if lo := o.endLo(); lo > Ic.Lo && lo <= Ic.Hi {
			Ic.Lo = lo
		}
	}
	a := m.M.NewAlloc(r.Client, r.User, relay, tcp, Ic, int64(life)*1e9)
	a.TID = r.TID
	a.RespSig = sig
	ended := false
	if od := m.orphanDeletes[r.Client]; len(od) > 0 {
		// the allocation was already deleted again while its success response was held up
		td := od[0]
		m.orphanDeletes[r.Client] = od[1:]
		if td >= Ic.Lo && td <= I.Hi {
			a.DeletedEvents = 1
			a.End = &ivl{td, td}
			a.EndCause = "before-response"
			ended = true
		}
	}
	m.Net.SetName(a.RelayKey, "relay:"+m.Net.Name(src.IP, src.Port))
	// relay truthfulness (C19/C20): really bound, open, not shared
	m.Net.mu.Lock()
	var bound *SockInfo
	for _, s := range m.Net.Socks {
		if s.Open && s.Role == "relay" && s.Addr == a.RelayKey && (s.Kind == "udp") == !tcp {
			bound = s
		}
	}
	m.Net.mu.Unlock()
	if t, failed := m.relayErr[a.RelayKey]; failed && t >= Ic.Lo && t <= I.Hi {
		// an injected relay read error struck while the success response was on its way out:
		// the allocation is being torn down already (its deleted event may come later)
		ended = true
		m.markEnding(a, t, "relay-failure")
	}
	if bound == nil && !ended && !m.serverClosed && Ic.Lo+int64(life)*1e9 > I.Hi {
		m.v([]string{"C19", "C20"}, "relay-unreachable", nil, "Allocate advertised %s but no open relay socket is bound there", a.RelayKey)
	}
	for _, o := range m.M.ByRelay[a.RelayKey] {
		if o != a && o.TCP == a.TCP && m.M.DefinitelyAlive(o, I.Lo, I.Hi) {
			m.v([]string{"C19", "C20", "C04"}, "relay-shared", nil, "relayed address %s given to %s while %s still holds it", a.RelayKey, a.Client, o.Client)
		}
	}
	// family
	wantFam := 0
	if v, err := r.Msg.Get(attrReqAddrFamily); err == nil && len(v) == 4 {
		if v[0] == 1 {
			wantFam = 4
		} else if v[0] == 2 {
			wantFam = 6
		}
	}
	if wantFam != 0 && a.Family != wantFam {
		m.v([]string{"C19"}, "wrong-family", nil, "requested family %d, relayed address %s", wantFam, a.RelayKey)
	}
}

func (m *Monitor) respRefresh(r *mReq, msg *stun.Message, ok bool, code int, I ivl) {
	poss, _ := m.ownerAllocs(r, I)
	if v, has := getU32(r.Msg, attrLifetime); has && v == 0 {
		if ok {
			delete(m.Refresh0Err, r.Client)
		} else {
			m.Refresh0Err[r.Client] = code
		}
	}
	if !ok {
		return
	}
	life, okL := getU32(msg, attrLifetime)
	if !okL {
		m.v([]string{"C19"}, "malformed-success", kv("method", "refresh"), "Refresh success without LIFETIME")
		return
	}
	if len(poss) == 0 {
		if m.serverClosed {
			// a handler that outlived Server.Close (stalled, or working through requests its
			// packetiser had buffered) may have made an allocation whose success response could
			// not be written any more: the wire never showed it, so "none can be alive" is not known
			return
		}
		m.v([]string{"C06", "C04"}, "alive-after-deadline", kv("probe", "refresh"), "Refresh from %s succeeded but no allocation can be alive on that 5-tuple", r.Client)
		return
	}
	a := poss[len(poss)-1]
	if r.Auth >= 0 && r.User != "" && a.User != r.User {
		m.v([]string{"C03", "C04"}, "foreign-user-accepted", kv("method", "refresh"), "Refresh by user %q accepted on allocation of %q", r.User, a.User)
		return
	}
	if r.Auth < 0 {
		return
	}
	want, either := m.expectedLifetime(r.Msg)
	if !either && int64(life)*1e9 != want {
		req, _ := getU32(r.Msg, attrLifetime)
		m.v([]string{"C06"}, "wrong-granted-lifetime", kv("method", "refresh"), "Refresh requested %d s (default %d s) granted %d s", req, m.M.DefaultLife/1e9, life)
	}
	if life == 0 {
		m.M.EndAlloc(a, I, "refresh0")
		if len(poss) == 1 && a.End != nil {
			// The handler removes the allocation and then answers: the success response is
			// proof that the removal is complete, whoever is parked wherever. (With two
			// allocations possibly alive on the 5-tuple the wire does not say which one it was.)
			if a.End.Hi > I.Hi {
				a.End.Hi = I.Hi
			}
			a.EndFirm = true
		}
		return
	}
	if a.End != nil && a.EndCause == "expiry" && a.End.Hi <= I.Hi && a.End.Hi < I.Lo+int64(life)*1e9 {
		// The allocation expired while the request was being handled, and earlier than the
		// granted lifetime allows: that was the old deadline. Had the refresh been applied
		// before it, the allocation would not have expired; applied after it, there was
		// nothing left to refresh.
		m.v([]string{"C06", "C19"}, "refresh-success-after-expiry", nil,
			"Refresh from %s (received %d) answered with success and LIFETIME %d s although the allocation expired and was reported deleted at %d", r.Client, I.Lo, life, a.End.Hi)
		return
	}
	if !m.M.DefinitelyAlive(a, I.Lo, I.Hi) {
		// The request raced with the expiry. Either outcome is legal - the refresh wins and
		// is answered with success, or the expiry wins and it is not - but a success
		// response is a promise: the allocation exists and lives for the granted lifetime.
		m.K.Stats.Probe("refresh_racing_expiry")
	}
	if I.Lo > a.Deadline.Lo-1e9 {
		m.K.Stats.Probe("refresh_in_last_second")
	}
	a.Deadline = ivl{I.Lo + int64(life)*1e9, I.Hi + int64(life)*1e9}
}

func (m *Monitor) respCreatePerm(r *mReq, msg *stun.Message, ok bool, code int, I ivl) {
	poss, def := m.ownerAllocs(r, I)
	peers, bad := allXORAddrs(r.Msg, attrXORPeerAddress)
	if !ok {
		if def != nil && !m.serverClosed && r.Auth > 0 && r.User == def.User && !bad && len(peers) > 0 {
			allOK := true
			for _, p := range peers {
				if m.vetoed(r.Client, p.IP) || ipFamily(p.IP) != def.Family {
					allOK = false
				}
			}
			if allOK && !m.srvWriteFailed[r.Client] {
				m.v([]string{"C07", "C03"}, "valid-request-rejected", kv("method", "createperm", "code", itoa(code)),
					"CreatePermission by the owner for permitted peers answered %d", code)
			}
		}
		return
	}
	if len(poss) == 0 {
		if m.serverClosed {
			// a handler that outlived Server.Close (stalled, or working through requests its
			// packetiser had buffered) may have made an allocation whose success response could
			// not be written any more: the wire never showed it, so "none can be alive" is not known
			return
		}
		m.v([]string{"C06", "C04"}, "alive-after-deadline", kv("probe", "createperm"), "CreatePermission from %s succeeded without a live allocation", r.Client)
		return
	}
	a := poss[len(poss)-1]
	if r.Auth >= 0 && r.User != "" && a.User != r.User {
		m.v([]string{"C03", "C04"}, "foreign-user-accepted", kv("method", "createperm"), "CreatePermission by user %q accepted on allocation of %q", r.User, a.User)
		return
	}
	if r.Auth < 0 {
		return
	}
	for _, p := range peers {
		if m.vetoed(r.Client, p.IP) {
			m.v([]string{"C01"}, "vetoed-installed", kv("path", "perm"), "CreatePermission success names peer %s which the permission handler refuses", p.IP)
			continue
		}
		if ipFamily(p.IP) != a.Family {
			m.v([]string{"C01"}, "family-installed", kv("path", "perm"), "CreatePermission success for %s on an IPv%d allocation", p.IP, a.Family)
			continue
		}
		if r.Strict != nil && !hasXORAddr(r.Strict, attrXORPeerAddress, p.IP) {
			// named only behind MESSAGE-INTEGRITY: not part of the authentic request. A server
			// may not act on it; whether this one does shows when that peer's traffic is relayed
			// (known finding KF-C03-1). Kept apart, so that every other rule accepts either behaviour.
			if a.TrailPerms == nil {
				a.TrailPerms = map[string][]*period{}
			}
			a.TrailPerms[p.IP.String()] = m.M.install(a, a.TrailPerms[p.IP.String()], I, m.M.PermTimeout)
			continue
		}
		m.M.InstallPerm(a, p.IP.String(), I)
	}
}

// trailingOnly: between t1 and t2 a permission for ip can exist only on the strength of an
// attribute that followed MESSAGE-INTEGRITY.
func (m *Monitor) trailingOnly(a *mAlloc, ip string, t1, t2 int64) bool {
	if m.M.PermPossibly(a, ip, t1, t2) || m.pendingInstall(a, ip, -1, "", t2) {
		return false
	}
	for _, p := range a.TrailPerms[ip] {
		if m.M.periodPossibly(a, p, t1, t2) {
			return true
		}
	}
	return false
}

func (m *Monitor) afterIntegrityHonoured(dir, client, peer string) {
	m.v([]string{"C03"}, "after-integrity-attribute-honoured", kv("method", "createperm", "dir", dir),
		"traffic between %s and %s was relayed on the strength of an XOR-PEER-ADDRESS that followed MESSAGE-INTEGRITY in the CreatePermission request: that attribute is not covered by the credentials (RFC 5389 section 15.4), anybody on the path can append it", client, peer)
}

func (m *Monitor) respChannelBind(r *mReq, msg *stun.Message, ok bool, code int, I ivl) {
	poss, def := m.ownerAllocs(r, I)
	n, okN := getChannel(r.Msg)
	peer, okP := getXORAddr(r.Msg, attrXORPeerAddress)
	if !ok {
		if def != nil && !m.serverClosed && r.Auth > 0 && r.User == def.User && okN && okP && n >= 0x4000 && n <= 0x7FFF &&
			!m.vetoed(r.Client, peer.IP) && ipFamily(peer.IP) == def.Family && !m.M.ChanConflictPossibly(def, n, ustr(peer), I.Lo, I.Hi) {
			cls := "valid-request-rejected"
			if m.M.ChanDefinitely(def, n, ustr(peer), I.Lo, I.Hi) {
				cls = "rebind-rejected"
			}
			m.v([]string{"C08", "C07"}, cls, kv("method", "chanbind", "code", itoa(code)),
				"ChannelBind 0x%04x -> %s by the owner without any conflict answered %d", n, ustr(peer), code)
		}
		if def != nil && okN && okP && r.Auth > 0 && r.User == def.User {
			if why, c := m.M.ChanConflictDefinitely(def, n, ustr(peer), I.Lo, I.Hi); c && code != 400 && n >= 0x4000 && n <= 0x7FFF &&
				!m.vetoed(r.Client, peer.IP) && ipFamily(peer.IP) == def.Family {
				m.v([]string{"C08"}, "conflict-wrong-code", kv("kind", why, "code", itoa(code)), "conflicting ChannelBind answered %d, want 400", code)
			}
		}
		return
	}
	if len(poss) == 0 {
		if m.serverClosed {
			// a handler that outlived Server.Close (stalled, or working through requests its
			// packetiser had buffered) may have made an allocation whose success response could
			// not be written any more: the wire never showed it, so "none can be alive" is not known
			return
		}
		m.v([]string{"C06", "C04"}, "alive-after-deadline", kv("probe", "chanbind"), "ChannelBind from %s succeeded without a live allocation", r.Client)
		return
	}
	a := poss[len(poss)-1]
	if r.Auth >= 0 && r.User != "" && a.User != r.User {
		m.v([]string{"C03", "C04"}, "foreign-user-accepted", kv("method", "chanbind"), "ChannelBind by user %q accepted on allocation of %q", r.User, a.User)
		return
	}
	if r.Auth < 0 {
		return
	}
	if !okN || !okP {
		m.v([]string{"C08"}, "malformed-accepted", nil, "ChannelBind without channel number or peer address succeeded")
		return
	}
	if n < 0x4000 || n > 0x7FFF {
		m.v([]string{"C08"}, "out-of-range-bound", kv("n", rangeClass(n)), "ChannelBind of number 0x%04x succeeded", n)
	}
	if m.vetoed(r.Client, peer.IP) {
		m.v([]string{"C01"}, "vetoed-installed", kv("path", "chan"), "ChannelBind success toward %s which the permission handler refuses", peer.IP)
		return
	}
	if ipFamily(peer.IP) != a.Family {
		m.v([]string{"C01"}, "family-installed", kv("path", "chan"), "ChannelBind success toward %s on an IPv%d allocation", peer.IP, a.Family)
		return
	}
	if why, c := m.M.ChanConflictDefinitely(a, n, ustr(peer), I.Lo, I.Hi); c {
		m.v([]string{"C08"}, "conflict-accepted", kv("kind", why), "ChannelBind 0x%04x -> %s succeeded although %s", n, ustr(peer), why)
		return
	}
	if m.M.ChanDefinitely(a, n, ustr(peer), I.Lo, I.Hi) {
		m.K.Stats.Probe("chan_rebind_refresh")
	}
	m.M.InstallChan(a, n, ustr(peer), I)
	m.M.InstallPerm(a, peer.IP.String(), I)
}

func rangeClass(n uint16) string {
	switch {
	case n < 0x4000:
		return "below"
	case n > 0x7FFF:
		return "above"
	}
	return "in"
}

// ---------------------------------------------------------------- requests in flight

// pendingInstall: is there a request from the allocation's client, received by the server at
// or before t2 and not answered yet, whose success would install a permission for ip (and,
// when n >= 0, bind channel n to addr)? Its effect may already be in force (interval semantics).
func (m *Monitor) pendingInstall(a *mAlloc, ip string, n int, addr string, t2 int64) bool {
	for _, rs := range m.reqs {
		for _, r := range rs {
			if r.Answered || r.Client != a.Client || r.TRecv > t2 || r.Auth < 0 {
				continue
			}
			switch r.Method {
			case stun.MethodCreatePermission:
				if n >= 0 {
					continue
				}
				peers, _ := allXORAddrs(r.Msg, attrXORPeerAddress)
				for _, p := range peers {
					if p.IP.String() == ip {
						return true
					}
				}
			case stun.MethodChannelBind:
				cn, ok1 := getChannel(r.Msg)
				peer, ok2 := getXORAddr(r.Msg, attrXORPeerAddress)
				if !ok1 || !ok2 {
					continue
				}
				if n < 0 && peer.IP.String() == ip {
					return true
				}
				if n >= 0 && int(cn) == n && ustr(peer) == addr {
					return true
				}
			}
		}
	}
	return false
}

func (m *Monitor) permPoss(a *mAlloc, ip string, t1, t2 int64) bool {
	if m.M.PermPossibly(a, ip, t1, t2) || m.pendingInstall(a, ip, -1, "", t2) {
		return true
	}
	for _, p := range a.TrailPerms[ip] {
		if m.M.periodPossibly(a, p, t1, t2) {
			return true
		}
	}
	return false
}

func (m *Monitor) chanPoss(a *mAlloc, n uint16, addr string, t1, t2 int64) bool {
	return m.M.ChanPossibly(a, n, addr, t1, t2) || m.pendingInstall(a, "", int(n), addr, t2)
}

func (m *Monitor) chanOfAddrPoss(a *mAlloc, addr string, t1, t2 int64) bool {
	if m.M.ChanOfAddrPossibly(a, addr, t1, t2) {
		return true
	}
	for n := 0x4000; n <= 0x7FFF; n += 0x4000 { // any number: scan pending binds for this address
		_ = n
	}
	for _, rs := range m.reqs {
		for _, r := range rs {
			if r.Answered || r.Client != a.Client || r.TRecv > t2 || r.Auth < 0 || r.Method != stun.MethodChannelBind {
				continue
			}
			if peer, ok := getXORAddr(r.Msg, attrXORPeerAddress); ok && ustr(peer) == addr {
				return true
			}
		}
	}
	return false
}

// ---------------------------------------------------------------- client -> peer (C01/C04/C05/C06/C07)

func (m *Monitor) allocsByRelay(relayKey string, t1, t2 int64) []*mAlloc {
	var out []*mAlloc
	for _, a := range m.M.ByRelay[relayKey] {
		if !a.TCP && m.M.PossiblyAlive(a, t1, t2) {
			out = append(out, a)
		}
	}
	return out
}

func (m *Monitor) relayWrite(relayKey, to string, payload []byte, now int64) {
	m.K.Logf("relayout %s>%s len=%d", m.Net.names[relayKey], to, len(payload))
	if m.serverClosed {
		return // handlers that were in flight when the server was closed are not judged
	}
	dst := mustUDPAddr(to)
	// candidates: submissions not yet matched
	// newest first, and submissions not yet judged before those already judged at an idle point
	var cands []*mSub
	for pass := 0; pass < 2; pass++ {
		for i := len(m.subs) - 1; i >= 0; i-- {
			s := m.subs[i]
			if !s.Done && s.Judged == (pass == 1) && bytes.Equal(s.Payload, payload) {
				cands = append(cands, s)
			}
		}
	}
	owners := m.allocsByRelay(relayKey, 0, now)
	var why string
	for _, s := range cands {
		for _, a := range owners {
			if a.Client != s.Client || !m.M.PossiblyAlive(a, s.TRecv, now) {
				continue
			}
			if s.IsChan {
				if m.chanPoss(a, s.Chan, to, s.TRecv, now) {
					s.Done = true
					m.lateEmission(s, now)
					if m.vetoed(a.Client, dst.IP) {
						m.v([]string{"C01"}, "unauthorised-emission", kv("kind", "chandata", "reason", "vetoed"), "ChannelData relayed to vetoed peer %s", to)
					}
					return
				}
				why = "no-binding"
			} else if s.Peer == to {
				if m.permPoss(a, dst.IP.String(), s.TRecv, now) {
					s.Done = true
					m.lateEmission(s, now)
					if m.trailingOnly(a, dst.IP.String(), s.TRecv, now) {
						m.afterIntegrityHonoured("c2p", a.Client, to)
					}
					return
				}
				why = "no-perm"
			}
		}
	}
	// no authorised submission explains this emission: classify
	if len(cands) > 0 {
		s := cands[0]
		sameClient := false
		for _, a := range owners {
			if a.Client == s.Client {
				sameClient = true
			}
		}
		if !sameClient {
			m.v([]string{"C04", "C01"}, "cross-talk", kv("what", "emission"), "payload submitted by %s left from relay %s which is not that client's", s.Client, relayKey)
			s.Done = true
			return
		}
		kind := "send"
		if s.IsChan {
			kind = "chandata"
		}
		if why == "" {
			why = "wrong-destination"
		}
		props := []string{"C01"}
		// which lifetime property is also contradicted
		for _, a := range owners {
			if a.Client != s.Client {
				continue
			}
			if !m.M.PossiblyAlive(a, s.TRecv, now) {
				props = append(props, "C06")
				why = "allocation-expired"
			} else if why == "no-perm" && len(a.Perms[dst.IP.String()]) > 0 {
				props = append(props, "C07")
				why = "permission-expired"
			} else if others := m.M.ChanAddrsPossibly(a, s.Chan, s.TRecv, now); why == "no-binding" && len(others) > 0 {
				// the number is bound - to somebody else: one number, two peers
				props = append(props, "C08")
				why = "bound-to-other-peer"
			} else if why == "no-binding" {
				had := false
				for _, c := range a.Chans {
					if c.N == s.Chan && c.Addr == to {
						had = true
					}
				}
				if had {
					props = append(props, "C07")
					why = "binding-expired"
				}
			}
		}
		s.Done = true
		m.v(props, "unauthorised-emission", kv("kind", kind, "reason", why), "%s from %s relayed to %s without authorisation (%s)", kind, s.Client, to, why)
		return
	}
	// altered or duplicated?
	for _, s := range m.subs {
		if s.Done && bytes.Equal(s.Payload, payload) {
			m.v([]string{"C05", "C01"}, "duplicated", kv("dir", "c2p"), "payload of %d bytes emitted to %s more often than the server received it", len(payload), to)
			return
		}
	}
	for _, s := range m.subs {
		if !s.Done && (s.Peer == to || s.IsChan) {
			for _, a := range owners {
				if a.Client == s.Client {
					s.Done = true
					m.v([]string{"C05"}, "payload-altered", kv("dir", "c2p", "sent", lenClass(len(s.Payload)), "got", lenClass(len(payload))),
						"client payload of %d bytes left the relay as %d bytes toward %s", len(s.Payload), len(payload), to)
					return
				}
			}
		}
	}
	m.v([]string{"C01", "C05"}, "unattributable-emission", nil, "relay %s emitted %d bytes to %s that no client submitted", relayKey, len(payload), to)
}

// lateEmission: a submission that was still unrelayed when the system had gone idle is
// relayed after all - over a stream listener that is a frame the packetiser withheld.
func (m *Monitor) lateEmission(s *mSub, now int64) {
	if !s.Judged {
		return
	}
	m.K.Stats.Probe("emission_after_idle")
	if m.P.Cfg.Listener == "tcp" && m.K.Parked() == 0 && len(m.K.StallIntervals()) == 0 {
		m.v([]string{"C10"}, "frame-withheld", kv("kind", "via-server", "len", lenClass(s.MsgLen)),
			"client message of %d bytes was handled only %d ns after its last byte arrived, when later bytes came in", s.MsgLen, now-s.TRecv)
	}
}

func lenClass(n int) string {
	switch {
	case n == 0:
		return "0"
	case n < 9:
		return "1-8"
	case n <= 1400:
		return "9-1400"
	case n <= 1600:
		return "1401-1600"
	}
	return ">1600"
}

// ---------------------------------------------------------------- peer -> client (C02/C04/C05)

func (m *Monitor) forward(to string, isChan bool, num uint16, peer string, payload []byte, now int64) {
	m.K.Logf("fwd %s chan=%v len=%d", m.Net.names[to], isChan, len(payload))
	if m.serverClosed {
		return
	}
	allocs := m.M.Current(to, 0, now)
	var cands []*mInb
	for pass := 0; pass < 2; pass++ {
		for k := len(m.inbs) - 1; k >= 0; k-- {
			i := m.inbs[k]
			if !i.Done && i.Judged == (pass == 1) && bytes.Equal(i.Payload, payload) {
				cands = append(cands, i)
			}
		}
	}
	reason := "no-arrival"
	for _, i := range cands {
		for _, a := range allocs {
			if a.RelayKey != i.RelayKey || !m.M.PossiblyAlive(a, i.TRecv, now) {
				continue
			}
			src := mustUDPAddr(i.From)
			if isChan {
				if !m.chanPoss(a, num, i.From, i.TRecv, now) {
					reason = "number-not-bound-to-sender"
					continue
				}
			} else if peer != i.From {
				reason = "peer-address-differs"
				continue
			}
			if m.permPoss(a, src.IP.String(), i.TRecv, now) || m.chanOfAddrPoss(a, i.From, i.TRecv, now) {
				i.Done = true
				if m.trailingOnly(a, src.IP.String(), i.TRecv, now) && !m.chanOfAddrPoss(a, i.From, i.TRecv, now) {
					m.afterIntegrityHonoured("p2c", a.Client, i.From)
				}
				if len(m.M.ByRelay[i.From]) > 0 {
					m.K.Stats.Probe("hairpin_forwarded")
				}
				return
			}
			reason = "no-permission"
		}
	}
	form := "data"
	if isChan {
		form = "chandata"
	}
	if len(cands) > 0 {
		i := cands[0]
		own := false
		for _, a := range allocs {
			if a.RelayKey == i.RelayKey {
				own = true
			}
		}
		i.Done = true
		if !own {
			m.v([]string{"C04", "C02"}, "cross-talk", kv("what", "delivery"), "datagram that arrived at relay %s was forwarded to %s, which does not own it", i.RelayKey, to)
			return
		}
		switch reason {
		case "peer-address-differs", "number-not-bound-to-sender":
			props := []string{"C05", "C02"}
			if isChan {
				props = append(props, "C08") // a number emitted for a peer it is not bound to
			}
			m.v(props, "misattributed", kv("form", form), "datagram from %s forwarded to %s as coming from %s (chan 0x%04x): %s", i.From, to, peer, num, reason)
		default:
			props := []string{"C02"}
			for _, a := range allocs {
				if a.RelayKey == i.RelayKey && len(a.Perms[mustUDPAddr(i.From).IP.String()]) > 0 {
					props = append(props, "C07")
					reason = "permission-expired"
				}
			}
			m.v(props, "unauthorised-forward", kv("form", form, "reason", reason), "datagram from %s forwarded to %s without permission (%s)", i.From, to, reason)
		}
		return
	}
	if len(allocs) == 0 {
		m.v([]string{"C02", "C06"}, "unauthorised-forward", kv("form", form, "reason", "no-allocation"), "relayed data sent to %s which has no allocation", to)
		return
	}
	for _, i := range m.inbs {
		if i.Done && bytes.Equal(i.Payload, payload) {
			m.v([]string{"C05"}, "duplicated", kv("dir", "p2c"), "peer datagram of %d bytes forwarded to %s more than once", len(payload), to)
			return
		}
	}
	for _, i := range m.inbs {
		if i.Done {
			continue
		}
		for _, a := range allocs {
			if a.RelayKey == i.RelayKey && (isChan || peer == i.From) {
				i.Done = true
				m.v([]string{"C05"}, "payload-altered", kv("dir", "p2c", "sent", lenClass(len(i.Payload)), "got", lenClass(len(payload))),
					"peer datagram of %d bytes from %s reached %s as %d bytes", len(i.Payload), i.From, to, len(payload))
				return
			}
		}
	}
	m.v([]string{"C02", "C05"}, "unattributable-forward", kv("form", form), "server sent %d relayed bytes to %s that no peer sent to its relay", len(payload), to)
}

// ---------------------------------------------------------------- lifecycle events

func (m *Monitor) Event(kind, key string) {
	now := m.K.Now()
	if traceKernel && kind == "alloc-deleted" {
		buf := make([]byte, 8192)
		n := runtime.Stack(buf, false)
		fmt.Fprintf(os.Stderr, "STACK %d %s\n%s\n", now, key, buf[:n])
	}
	m.mu.Lock()
	m.events = append(m.events, evRec{kind, key, now})
	m.evCount[kind]++
	switch kind {
	case "alloc-deleted":
		m.onAllocDeleted(key, now)
	case "perm-deleted":
		if f := strings.Split(key, "|"); len(f) == 3 {
			m.M.GonePerm(f[0], f[1], f[2], now)
		}
	case "chan-deleted":
		if f := strings.Split(key, "|"); len(f) == 4 {
			var n int
			fmt.Sscanf(f[3], "%d", &n)
			m.M.GoneChan(f[0], f[1], f[2], uint16(n), now)
		}
	}
	m.mu.Unlock()
	m.K.Logf("cb %s %s", kind, key)
}

// onAllocDeleted: an allocation of client `key` was removed now. Must be explained by its
// deadline, a Refresh 0 / shorter Refresh in progress, or an injected teardown cause. Events can
// be late (a stalled callback), so the event is attributed to the oldest allocation of the
// 5-tuple that has no deleted event yet and that explains it.
func (m *Monitor) onAllocDeleted(client string, now int64) {
	var cands []*mAlloc
	for _, a := range m.M.Allocs[client] {
		if a.DeletedEvents == 0 {
			cands = append(cands, a)
		}
	}
	if len(cands) == 0 {
		if m.pendingAllocate(client) {
			m.orphanDeletes[client] = append(m.orphanDeletes[client], now)
			return
		}
		m.v([]string{"C15"}, "event-unpaired", kv("kind", "allocation", "side", "deleted"), "allocation-deleted event for %s without an allocation that has not been reported deleted yet", client)
		return
	}
	for _, a := range cands {
		if m.explainDelete(a, client, now) {
			a.DeletedEvents++
			return
		}
	}
	if m.pendingAllocate(client) && len(m.K.StallIntervals()) > 0 {
		m.orphanDeletes[client] = append(m.orphanDeletes[client], now)
		return
	}
	a := cands[len(cands)-1]
	a.DeletedEvents++
	m.v([]string{"C06"}, "dead-before-deadline", kv("cause", "unexplained"), "allocation of %s deleted at %d ns, %d ns before its deadline", client, now, a.Deadline.Lo-now)
	m.M.EndAlloc(a, ivl{now, now}, "unexplained")
}

// markEnding: a teardown cause has struck; the allocation is no longer definitely alive from
// now on, although its removal (and the deleted event) may complete later.
func (m *Monitor) markEnding(a *mAlloc, now int64, cause string) {
	if a.End == nil && m.M.PossiblyAlive(a, now, now) {
		a.End = &ivl{now, 1 << 61}
		a.EndCause = cause
	}
}

func (m *Monitor) explainDelete(a *mAlloc, client string, now int64) bool {
	if a.End != nil && now >= a.End.Lo {
		if a.End.Hi > now {
			a.End.Hi = now
		}
		return true
	}
	if m.serverClosed {
		m.M.EndAlloc(a, ivl{now, now}, "server-close")
		return true
	}
	if t, ok := m.ctlEnded[client]; ok && now >= t && a.Created.Lo <= t {
		// (only what existed when that connection ended: an allocation made afterwards, over a
		// new connection from the same address, is not explained by the old one's end)
		m.M.EndAlloc(a, ivl{t, now}, "control-connection")
		return true
	}
	if t, ok := m.relayErr[a.RelayKey]; ok && now >= t {
		m.M.EndAlloc(a, ivl{t, now}, "relay-failure")
		return true
	}
	// A Refresh being handled right now (response not written yet) may already have changed
	// the lifetime: Refresh 0 deletes at once, another value re-arms the timer from its receipt.
	for _, rs := range m.reqs {
		for _, r := range rs {
			if r.Client == client && r.Method == stun.MethodRefresh && !r.Answered && r.Auth >= 0 {
				if v, ok := getU32(r.Msg, attrLifetime); ok && v == 0 {
					m.M.EndAlloc(a, ivl{r.TRecv, now}, "refresh0")
					return true
				}
				if want, _ := m.expectedLifetime(r.Msg); now >= r.TRecv+want {
					m.K.Stats.Probe("expiry_under_pending_refresh")
					m.M.EndAlloc(a, ivl{r.TRecv + want, now}, "expiry")
					return true
				}
			}
		}
	}
	if now < a.Deadline.Lo {
		return false
	}
	if now > m.M.widen(a.Deadline.Hi) {
		m.v([]string{"C06"}, "alive-after-deadline", kv("probe", "deleted-event"), "allocation of %s deleted %d ns after its deadline", client, now-a.Deadline.Hi)
	}
	m.M.EndAlloc(a, ivl{a.Deadline.Lo, now}, "expiry")
	return true
}

// pendingAllocateOther: another Allocate of the same client is still being handled.
func (m *Monitor) pendingAllocateOther(self *mReq) bool {
	for _, rs := range m.reqs {
		for _, r := range rs {
			if r != self && r.Client == self.Client && r.Method == stun.MethodAllocate && !r.Answered {
				return true
			}
		}
	}
	return false
}

func (m *Monitor) pendingAllocate(client string) bool {
	for _, rs := range m.reqs {
		for _, r := range rs {
			if r.Client == client && r.Method == stun.MethodAllocate && !r.Answered {
				return true
			}
		}
	}
	return false
}

// ---------------------------------------------------------------- idle-point resolution

// Idle is called by the driver whenever nothing is due and nobody is parked: every handler
// has completed, so pending obligations can be judged.
func (m *Monitor) Idle(now int64, allocCount int, lossFree bool) {
	m.mu.Lock()
	defer m.mu.Unlock()
	m.Idles++
	// client -> peer submissions that produced no emission
	keep := m.subs[:0]
	for _, s := range m.subs {
		if s.Done || s.Judged {
			if now-s.TRecv < 120e9 || (!s.Done && now-s.TRecv < 7200e9) {
				keep = append(keep, s) // remembered for duplicate / late-emission detection
			}
			continue
		}
		if s.TRecv >= now {
			keep = append(keep, s)
			continue
		}
		s.Judged = true
		keep = append(keep, s)
		if m.NoMust || m.serverClosed || !lossFree || s.MsgLen >= m.InboundMTU {
			continue
		}
		for _, a := range m.M.Allocs[s.Client] {
			if !m.M.DefinitelyAlive(a, s.TRecv, now) || a.TCP {
				continue
			}
			if _, failed := m.relayErr[a.RelayKey]; failed || m.relayWriteErr[a.RelayKey] {
				continue
			}
			if s.IsChan {
				for _, addr := range m.M.ChanAddrsPossibly(a, s.Chan, s.TRecv, now) {
					if m.M.ChanDefinitely(a, s.Chan, addr, s.TRecv, now) {
						s.Lost = true
						m.v([]string{"C07", "C05"}, "refuses-before-deadline", kv("obj", "channel", "dir", "c2p"),
							"ChannelData 0x%04x (%d bytes) from %s was not relayed although the binding is alive (deadline in %d ns)", s.Chan, len(s.Payload), s.Client, m.chanLeft(a, s.Chan, now))
					}
				}
			} else if m.M.PermDefinitely(a, mustUDPAddr(s.Peer).IP.String(), s.TRecv, now) {
				s.Lost = true
				m.v([]string{"C07", "C05"}, "refuses-before-deadline", kv("obj", "permission", "dir", "c2p"),
					"Send indication (%d bytes) from %s to %s was not relayed although the permission is alive", len(s.Payload), s.Client, s.Peer)
			}
		}
	}
	m.subs = keep
	keepI := m.inbs[:0]
	for _, i := range m.inbs {
		if i.Done || i.Judged {
			if now-i.TRecv < 120e9 {
				keepI = append(keepI, i)
			}
			continue
		}
		if i.TRecv >= now {
			keepI = append(keepI, i)
			continue
		}
		i.Judged = true
		keepI = append(keepI, i)
		if m.NoMust || m.serverClosed || !lossFree || len(i.Payload) > m.MustMax {
			continue
		}
		for _, a := range m.M.ByRelay[i.RelayKey] {
			if a.TCP || !m.M.DefinitelyAlive(a, i.TRecv, now) || m.srvWriteFailed[a.Client] {
				continue
			}
			ip := mustUDPAddr(i.From).IP.String()
			if m.M.PermDefinitely(a, ip, i.TRecv, now) {
				m.v([]string{"C07", "C05"}, "refuses-before-deadline", kv("obj", "permission", "dir", "p2c"),
					"datagram (%d bytes) from %s to relay %s was not forwarded although the permission is alive", len(i.Payload), i.From, i.RelayKey)
			} else if _, ok := m.M.ChanOfAddrDefinitely(a, i.From, i.TRecv, now); ok {
				m.v([]string{"C07", "C05"}, "refuses-before-deadline", kv("obj", "channel", "dir", "p2c"),
					"datagram from channel-bound %s to relay %s was not forwarded", i.From, i.RelayKey)
			}
		}
	}
	m.inbs = keepI
	// requests that were never answered
	for k, rs := range m.reqs {
		keepR := rs[:0]
		for _, r := range rs {
			if r.Answered {
				if now-r.TRecv < 120e9 {
					keepR = append(keepR, r)
				}
				continue
			}
			if r.TRecv >= now || !m.handlerDone(r) {
				keepR = append(keepR, r)
				continue
			}
			r.Answered = true
			keepR = append(keepR, r)
			m.unanswered(r, now)
		}
		if len(keepR) == 0 {
			delete(m.reqs, k)
		} else {
			m.reqs[k] = keepR
		}
	}
	// AllocationCount (C06/C15/C04)
	if allocCount >= 0 && !m.serverClosed {
		lo, hi := 0, 0
		for _, as := range m.M.Allocs {
			for _, a := range as {
				if m.M.PossiblyAlive(a, now, now) {
					hi++
				}
				if m.M.DefinitelyAlive(a, now, now) {
					lo++
				}
			}
		}
		if allocCount < lo {
			m.v([]string{"C06", "C15"}, "dead-before-deadline", kv("cause", "count"), "server reports %d allocations, at least %d must be alive", allocCount, lo)
		}
		if allocCount > hi {
			m.v([]string{"C06", "C15", "C04"}, "alive-after-deadline", kv("probe", "count"), "server reports %d allocations, at most %d can be alive", allocCount, hi)
		}
	}
	m.registry(now)
	m.tcpIdle(now)
	st := m.M.Snapshot(now)
	m.states[st] = struct{}{}
}

// registry (C15): at an idle point the open relay sockets/listeners are exactly those of the
// allocations that may be alive, and every allocation that must be alive has its relay open.
func (m *Monitor) registry(now int64) {
	if m.serverClosed {
		return
	}
	m.Net.mu.Lock()
	var open []*SockInfo
	for _, s := range m.Net.Socks {
		if s.Open && s.Role == "relay" {
			open = append(open, s)
		}
	}
	m.Net.mu.Unlock()
	for _, s := range open {
		ok := false
		for _, a := range m.M.ByRelay[s.Addr] {
			if m.M.PossiblyAlive(a, now, now) {
				ok = true
			}
		}
		if !ok {
			// an Allocate may be in flight (socket exists before the response is written)
			for _, rs := range m.reqs {
				for _, r := range rs {
					if !r.Answered && r.Method == stun.MethodAllocate {
						ok = true
					}
				}
			}
		}
		if !ok && !m.leakReported[s.Addr] {
			m.leakReported[s.Addr] = true
			m.v([]string{"C15"}, "leak", kv("kind", "relay-"+s.Kind), "relay %s %s (opened at %d ns) is open at an idle point but no allocation that can be alive owns it", s.Kind, s.Addr, s.OpenedAt)
		}
	}
	for _, as := range m.M.Allocs {
		for _, a := range as {
			if !m.M.DefinitelyAlive(a, now, now) {
				continue
			}
			found := false
			for _, s := range open {
				if s.Addr == a.RelayKey {
					found = true
				}
			}
			if !found && !m.leakReported["closed:"+a.RelayKey] {
				m.leakReported["closed:"+a.RelayKey] = true
				m.v([]string{"C15", "C06"}, "closed-while-alive", nil, "allocation of %s must be alive but its relay %s is not open", a.Client, a.RelayKey)
			}
		}
	}
}

func (m *Monitor) chanLeft(a *mAlloc, n uint16, now int64) int64 {
	d, _ := m.M.ChanDeadline(a, n)
	return d - now
}

func (m *Monitor) unanswered(r *mReq, now int64) {
	if m.srvWriteFailed[r.Client] || m.serverClosed {
		return
	}
	I := ivl{r.TRecv, now}
	switch r.Method {
	case stun.MethodBinding:
		m.v([]string{"C09", "C19"}, "no-response", kv("method", "binding"), "Binding request from %s (received at %d ns, %d bytes: %x) was never answered", r.Client, r.TRecv, len(r.Raw), r.Raw)
	case stun.MethodAllocate, stun.MethodRefresh, stun.MethodCreatePermission, stun.MethodChannelBind:
		if r.Auth < 0 && (r.AuthWhy == "no-integrity" || r.AuthWhy == "stale-nonce") && m.P.Cfg.Auth != "none" {
			m.v([]string{"C03"}, "no-challenge", kv("method", methodName(r.Method), "why", r.AuthWhy), "%s without valid credentials (%s) got no challenge", methodName(r.Method), r.AuthWhy)
		}
		if _, ended := m.ctlEnded[r.Client]; ended {
			return
		}
		if r.Auth > 0 {
			_, def := m.ownerAllocs(r, I)
			if (r.Method == stun.MethodAllocate && len(m.K.StallIntervals()) == 0) || (r.Method != stun.MethodAllocate && def != nil && def.User == r.User) {
				props := []string{"C06"}
				if r.Method == stun.MethodAllocate {
					props = []string{"C19", "C09"}
				}
				m.v(props, "dead-before-deadline", kv("cause", "silence", "method", methodName(r.Method)),
					"authenticated %s from the owner %s got no response although its allocation must be alive", methodName(r.Method), r.Client)
			}
		}
	}
}

// Final checks at the end of a run.
func (m *Monitor) Final(now int64) {
	m.mu.Lock()
	defer m.mu.Unlock()
	if m.P.Cfg.Events {
		m.pairEvents()
	}
	m.finalTCP(now)
}

func (m *Monitor) pairEvents() {
	// created and deleted callbacks pair up one-to-one: equal counts per object at the end of
	// the run (everything has been released by then). Order is not judged: a stalled callback
	// may be overtaken.
	bal := map[string]int{}
	for _, e := range m.events {
		switch e.Kind {
		case "alloc-created":
			bal["allocation|"+e.Key]++
		case "alloc-deleted":
			bal["allocation|"+e.Key]--
		case "perm-created":
			bal["permission|"+e.Key]++
		case "perm-deleted":
			bal["permission|"+e.Key]--
		case "chan-created":
			bal["channel|"+e.Key]++
		case "chan-deleted":
			bal["channel|"+e.Key]--
		}
	}
	var keys []string
	for k, v := range bal {
		if v != 0 {
			keys = append(keys, k)
		}
	}
	sort.Strings(keys)
	for _, k := range keys {
		kind := k[:strings.IndexByte(k, '|')]
		if bal[k] > 0 {
			m.v([]string{"C15"}, "event-unpaired", kv("kind", kind, "side", "created"), "%d %s created event(s) never followed by a deleted event: %s", bal[k], kind, k)
		} else {
			m.v([]string{"C15"}, "event-unpaired", kv("kind", kind, "side", "deleted"), "%d %s deleted event(s) more than created events: %s", -bal[k], kind, k)
		}
	}
}

func (m *Monitor) States() int   { m.mu.Lock(); defer m.mu.Unlock(); return len(m.states) }
func (m *Monitor) Requests() int { m.mu.Lock(); defer m.mu.Unlock(); return m.doneReqs }
