package sim

import (
	"github.com/pion/turn/v5/internal/simsync"
)

func installHooks(k *Kernel) {
	simsync.Reset()
	if k.Free {
		// written once per process: goroutines left over from an earlier run may still read them
		if simsync.Hook != nil {
			simsync.Hook = nil
		}
		if simsync.Track {
			simsync.Track = false
		}
		freeMode = true
		return
	}
	simsync.Track = true
	simsync.Hook = func(kind, site string) { k.Yield(kind, site) }
	simsync.TimerHook = func(rank uint64) { k.setRank(rank) }
}

var freeMode bool

func uninstallHooks() {
	if !freeMode {
		simsync.Hook = nil
		simsync.TimerHook = nil
	}
}

// lockState reports held locks and blocked acquisitions (C18 oracles).
func lockState() (held, waiting []string) { return simsync.Held(), simsync.Waiting() }

func lockSites() map[string]int { return simsync.Sites() }
