package sim

import (
	"github.com/pion/turn/v5/internal/simsync"
)

func installHooks(k *Kernel) {
	simsync.Reset()
	simsync.Hook = func(kind, site string) { k.Yield(kind, site) }
}

func uninstallHooks() { simsync.Hook = nil }

// lockState reports held locks and blocked acquisitions (C18 oracles).
func lockState() (held, waiting []string) { return simsync.Held(), simsync.Waiting() }

func lockSites() map[string]int { return simsync.Sites() }
