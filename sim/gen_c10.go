package sim

import "encoding/hex"

func init() { generators["C10"] = genC10 }

func genCuts(r *RNG) (cuts, reads []int) {
	switch r.Intn(6) {
	case 0: // coalesced: no cuts
	case 1: // byte at a time
		cuts = []int{1}
	case 2:
		n := r.Range(1, 6)
		for i := 0; i < n; i++ {
			cuts = append(cuts, r.Range(1, 40))
		}
	case 3:
		cuts = []int{r.Range(1, 30), 0}
	case 4:
		cuts = []int{r.PickInt([]int{2, 3, 4, 5, 7, 8, 9, 19, 20, 21})}
	case 5:
		n := r.Range(2, 8)
		for i := 0; i < n; i++ {
			cuts = append(cuts, r.PickInt([]int{1, 2, 3, 4, 8, 16, 20, 100, 0}))
		}
	}
	switch r.Intn(4) {
	case 0:
		reads = []int{1}
	case 1:
		n := r.Range(1, 4)
		for i := 0; i < n; i++ {
			reads = append(reads, r.Range(1, 64))
		}
	}
	return
}

func genC10(p *Plan, r *RNG) {
	p.World = "frame"
	p.Cfg = Config{LatCSns: int64(r.Range(1, 20)) * ms, LatSPns: ms, Extra: map[string]int64{}}
	if r.Chance(1, 5) {
		genC10Bind(p, r)
		return
	}
	p.Flavor = "stunconn"
	cuts, reads := genCuts(r)
	p.Streams = []StreamCut{{Conn: "wr>rd", Cuts: cuts, Reads: reads, Coalesce: r.Chance(1, 2)}}
	if r.Chance(1, 4) {
		// transient read errors between segments (an expired read deadline, EINTR): nothing
		// that was read before may be lost, the frames still come out whole and in order
		p.Flavor = "stunconn+read-errors"
		for k := r.Range(1, 4); k > 0; k-- {
			// (half of them come with the bytes that were there: n > 0 and an error in one Read)
			p.IOFaults = append(p.IOFaults, IOFault{M: Match{Sock: "reader", Op: "Read", Nth: r.Range(2, 40)}, Do: r.Pick([]string{"error", "error-with-data"})})
		}
	}
	n := r.Range(1, 8)
	for i := 0; i < n; i++ {
		g := gap(int64(r.PickInt([]int{0, 0, 0, 1, 50, 2000})) * ms)
		if r.Chance(1, 2) {
			l := r.PickInt([]int{0, 4, 8, 12, 24, 100, 1000, 1500}) 
			if r.Chance(1, 4) {
				l = 4 * r.Range(0, 375)
			}
			if r.Chance(1, 12) {
				l = r.PickInt([]int{0xFFEC - 4, 0xFFE8, 0xFFEC, 0xFFF0, 0xFFFC, 0xFF00})
			}
			p.Ops = append(p.Ops, Op{Kind: "frame", At: g, A: OpArgs{S: "stun", Len: l}})
		} else {
			l := r.Range(0, 8)
			switch r.Intn(6) {
			case 0:
				l = r.Range(9, 64)
			case 1:
				l = r.Range(1400, 1600)
			case 2:
				l = r.PickInt([]int{65531, 65532, 65533, 65534, 65535, 65528})
				if !r.Chance(1, 3) {
					l = r.Range(0, 8)
				}
			}
			ch := r.PickInt([]int{0x4000, 0x4001, 0x7FFF, 0x7FFE, 0x5000, 0x6123})
			c := "rand"
			if r.Chance(1, 4) {
				c = "stunlike"
			}
			p.Ops = append(p.Ops, Op{Kind: "frame", At: g, A: OpArgs{S: "chan", Len: l, Chan: ch, Content: c}})
		}
	}
	switch r.Intn(8) {
	case 0:
		p.Ops = append(p.Ops, Op{Kind: "fin", At: gap(int64(r.Range(0, 100)) * ms)})
	case 1:
		p.Ops = append(p.Ops, Op{Kind: "rst", At: gap(int64(r.Range(0, 100)) * ms)})
	case 3:
		// the end of the stream comes with the last bytes: a Read that returns n > 0 and io.EOF
		p.Ops = append(p.Ops, Op{Kind: "fin", At: gap(0)})
		eofWithData(p)
	case 2:
		// bytes that cannot begin a frame
		g := r.Bytes(r.Range(20, 40))
		g[0] = byte(0x80 | r.Intn(0x80))
		p.Ops = append(p.Ops, Op{Kind: "bytes", At: gap(int64(r.Range(0, 100)) * ms), A: OpArgs{Raw: hex.EncodeToString(g)}})
	}
	p.QuietNS = 5 * sec
}

func genC10Bind(p *Plan, r *RNG) {
	p.Flavor = "bindreply"
	cuts, reads := genCuts(r)
	p.Streams = []StreamCut{{Conn: "wr>rd", Cuts: cuts, Reads: reads, Coalesce: r.Chance(1, 2)}}
	s := "success"
	if r.Chance(1, 4) {
		s = "error"
	}
	l := r.PickInt([]int{0, 0, 4, 40, 400})
	o := Op{Kind: "bindreply", At: gap(0), A: OpArgs{S: s, Len: l}}
	if r.Chance(1, 2) {
		// the peer's first bytes come right behind the reply (same write, any segmentation) and
		// the application reads them with a buffer of 1 byte to 4 KB
		o.A.N = r.PickInt([]int{1, 3, 10, 100, 1000, 5000})
		p.Cfg.Extra["read_size"] = int64(r.PickInt([]int{1, 3, 7, 64, 4096}))
	}
	p.Ops = append(p.Ops, o)
	p.QuietNS = 40 * sec
}
