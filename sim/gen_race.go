package sim

// Race-with-expiry family: one request (or relayed datagram) is issued a little before an
// allocation / permission / channel deadline, and the handling of exactly that request is
// parked at one seam (auth callback, lock, log line, socket write, lifecycle callback) for
// long enough to cross the deadline - or the expiry callback itself is parked and requests
// land while it is in progress. Traffic and requests afterwards show what state the server
// was left in. Undirected stalls (gen_faults.go) almost never line the three up.
//
// The family is mixed into C01, C02, C06, C07, C15 and C19 plans.

var raceStallReq = []string{"cb:Auth", "cb:OnAuth", "cb:Permission", "lock", "rlock", "unlock", "runlock", "log:*", "sock:listener:WriteTo",
	"cb:OnPermissionCreated", "cb:OnChannelCreated"}
var raceStallRelay = []string{"sock:listener:WriteTo", "sock:relay:WriteTo", "rlock", "runlock", "log:*", "cb:Permission"}
var raceStallExpiry = []string{"cb:OnPermissionDeleted", "cb:OnChannelDeleted", "cb:OnAllocationDeleted", "sock:relay:Close", "lock", "unlock", "log:*"}

func genRaceExpiry(p *Plan, r *RNG) {
	baseSrvConfig(p, r)
	target := r.Pick([]string{"alloc", "perm", "perm", "chan", "chan"})
	p.Flavor = "race-" + target
	horizon := r.PickInt([]int{2, 3, 5, 9})
	p.Cfg.AllocLifeS, p.Cfg.PermTimeoutS, p.Cfg.ChanTimeoutS = 3600, 3000, 3200
	switch target {
	case "alloc":
		p.Cfg.AllocLifeS = horizon
	case "perm":
		p.Cfg.PermTimeoutS = horizon
	case "chan":
		p.Cfg.ChanTimeoutS = horizon
		if r.Chance(1, 3) {
			p.Cfg.PermTimeoutS = horizon // both at once
		}
	}
	nc := r.Range(1, 2)
	addClients(p, r, nc)
	addPeers(p, r, 2)
	c := p.Clients[0].ID
	peer, pid := p.Peers[0].Addr, p.Peers[0].ID
	pip := mustUDPAddr(peer).IP.String()
	other := p.Peers[1].Addr
	ch := 0x4000 + r.Intn(3)
	add := func(o Op) int {
		p.Ops = append(p.Ops, o)
		return len(p.Ops) // the id Generate assigns
	}
	for i := 0; i < nc; i++ {
		add(Op{Actor: p.Clients[i].ID, Kind: "allocate", At: gap(int64(r.Range(1, 200)) * ms), A: OpArgs{Lifetime: -1}})
	}
	useChan := target == "chan" || r.Chance(1, 3)
	if useChan {
		add(Op{Actor: c, Kind: "chanbind", At: gap(int64(r.Range(20, 300)) * ms), A: OpArgs{Peer: peer, Chan: ch}})
	} else {
		add(Op{Actor: c, Kind: "createperm", At: gap(int64(r.Range(20, 300)) * ms), A: OpArgs{Peer: peer}})
	}
	if r.Chance(1, 2) {
		add(Op{Actor: pid, Kind: "peer_send", At: gap(int64(r.Range(100, 400)) * ms), A: OpArgs{Target: c, Len: r.Range(10, 100)}})
	}
	if r.Chance(1, 2) {
		add(Op{Actor: c, Kind: "send", At: gap(int64(r.Range(100, 400)) * ms), A: OpArgs{Peer: peer, Len: r.Range(10, 100)}})
	}
	var at func(off int64) TimeSpec
	switch target {
	case "alloc":
		at = func(off int64) TimeSpec { return ref("alloc_deadline", off, c) }
	case "perm":
		at = func(off int64) TimeSpec { return ref("perm_deadline", off, c, pip) }
	default:
		at = func(off int64) TimeSpec { return ref("chan_deadline", off, c, itoa(ch)) }
	}
	// the racing operation, issued delta before the deadline
	delta := r.PickI64([]int64{ms, 50 * ms, 100 * ms, 300 * ms, 700 * ms, sec})
	type cand struct {
		op      Op
		classes []string
	}
	cands := []cand{
		{Op{Actor: pid, Kind: "peer_send", A: OpArgs{Target: c, Len: r.Range(10, 200)}}, raceStallRelay},
		{Op{Actor: c, Kind: "send", A: OpArgs{Peer: peer, Len: r.Range(10, 200)}}, raceStallRelay},
		{Op{Actor: c, Kind: "createperm", A: OpArgs{Peer: peer}}, raceStallReq},
		{Op{Actor: c, Kind: "refresh", A: OpArgs{Lifetime: r.PickI64([]int64{-1, 30, 600})}}, raceStallReq},
		{Op{Actor: "", Kind: "wait"}, raceStallExpiry},
		{Op{Actor: "", Kind: "wait"}, raceStallExpiry},
	}
	if useChan {
		cands = append(cands,
			cand{Op{Actor: c, Kind: "chandata", A: OpArgs{Chan: ch, Len: r.Range(10, 200)}}, raceStallRelay},
			cand{Op{Actor: c, Kind: "chanbind", A: OpArgs{Peer: peer, Chan: ch}}, raceStallReq})
	} else {
		cands = append(cands, cand{Op{Actor: c, Kind: "chanbind", A: OpArgs{Peer: peer, Chan: ch}}, raceStallReq})
	}
	if target == "alloc" {
		cands = append(cands, cand{Op{Actor: c, Kind: "createperm", A: OpArgs{Peer: other}}, raceStallReq},
			cand{Op{Actor: c, Kind: "refresh", A: OpArgs{Lifetime: 600}}, raceStallReq},
			cand{Op{Actor: c, Kind: "refresh", A: OpArgs{Lifetime: 600}}, raceStallReq})
	}
	x := cands[r.Intn(len(cands))]
	x.op.At = at(-delta)
	xid := add(x.op)
	park := delta + r.PickI64([]int64{ms, 10 * ms, 200 * ms, sec, 2 * sec})
	if r.Chance(1, 6) {
		park = delta / 2 // stays inside the lifetime: nothing may change
	}
	nth := 1
	cls := x.classes[r.Intn(len(x.classes))]
	if cls == "lock" || cls == "rlock" || cls == "unlock" || cls == "runlock" || cls == "log:*" {
		nth = r.Range(1, 6)
	}
	p.Stalls = append(p.Stalls, Stall{M: Match{Class: cls, Args: "*", Nth: nth}, ParkNS: park, AfterOp: xid})
	// what happens while the handling is parked, and afterwards
	follow := func(g int64) {
		switch r.Intn(8) {
		case 0, 1:
			add(Op{Actor: pid, Kind: "peer_send", At: gap(g), A: OpArgs{Target: c, Len: r.Range(10, 200)}})
		case 2:
			add(Op{Actor: c, Kind: "send", At: gap(g), A: OpArgs{Peer: peer, Len: r.Range(10, 200)}})
		case 3:
			add(Op{Actor: c, Kind: "createperm", At: gap(g), A: OpArgs{Peer: peer}})
		case 4:
			add(Op{Actor: c, Kind: "chanbind", At: gap(g), A: OpArgs{Peer: peer, Chan: ch}})
		case 5:
			add(Op{Actor: c, Kind: "chandata", At: gap(g), A: OpArgs{Chan: ch, Len: r.Range(10, 200)}})
		case 6:
			add(Op{Actor: c, Kind: "refresh", At: gap(g), A: OpArgs{Lifetime: r.PickI64([]int64{-1, 600})}})
		case 7:
			add(Op{Actor: c, Kind: "chanbind", At: gap(g), A: OpArgs{Peer: other, Chan: ch}})
		}
	}
	nIn := r.Intn(3)
	used := int64(0)
	for i := 0; i < nIn; i++ {
		g := park / int64(nIn+1)
		if g < 1 {
			g = 1
		}
		used += g
		follow(g)
	}
	first := true
	for i := r.Range(2, 5); i > 0; i-- {
		g := int64(r.Range(50, 1500)) * ms
		if first {
			g += park - used // the first of these is past the end of the park
			first = false
		}
		follow(g)
	}
	// the same peer again well after everything settled, and once more past the next horizon
	add(Op{Actor: pid, Kind: "peer_send", At: gap(int64(r.Range(200, 900)) * ms), A: OpArgs{Target: c, Len: r.Range(10, 100)}})
	add(Op{Actor: c, Kind: "send", At: gap(int64(r.Range(50, 300)) * ms), A: OpArgs{Peer: peer, Len: r.Range(10, 100)}})
	add(Op{Actor: "", Kind: "wait", At: gap(int64(horizon)*sec + sec)})
	add(Op{Actor: pid, Kind: "peer_send", At: gap(100 * ms), A: OpArgs{Target: c, Len: r.Range(10, 100)}})
	add(Op{Actor: c, Kind: "refresh", At: gap(int64(r.Range(50, 300)) * ms), A: OpArgs{Lifetime: 30}})
	p.QuietNS = 15 * sec
}
