package sim

import (
	"os"
	"runtime"
	"testing"
)

// postRun: end-of-run oracles that need the whole process view (locks, goroutines, sockets).
func (w *SrvWorld) postRun(rec *RunRecord) {
	if os.Getenv("VERIF_DUMP") != "" {
		buf := make([]byte, 1<<20)
		n := runtime.Stack(buf, true)
		os.Stderr.Write(buf[:n])
	}
	held, waiting := lockState()
	for _, h := range held {
		if w.lockLeakReported {
			break
		}
		w.K.Violate(&Violation{Property: "C18", Class: "lock-held-at-idle", Key: kv("site", h), Detail: "lock still held at the end of the run, acquired at " + h})
	}
	for _, wt := range waiting {
		w.K.Violate(&Violation{Property: "C18", Class: "deadlock", Key: kv("site", wt), Detail: "acquisition still blocked at the end of the run: " + wt})
	}
	rec.LockSites = lockSites()
	// sockets the library was given or created must all be closed after Server.Close
	for _, s := range w.Net.OpenSockets() {
		switch s.Role {
		case "relay", "relay-out", "listener", "listener-conn", "relay-conn":
			w.K.Violate(&Violation{Property: "C15", Class: "open-after-server-close", Key: kv("kind", s.Kind+":"+s.Role),
				Detail: "socket " + s.Kind + " " + s.Role + " " + s.Addr + " remote " + s.Remote + " still open after the server was closed"})
		}
	}
	w.Net.mu.Lock()
	for _, s := range w.Net.Socks {
		if s.CloseCount > 1 && s.Role == "relay" && s.Kind != "tcp-conn" {
			w.K.Violate(&Violation{Property: "C15", Class: "double-close", Key: kv("kind", s.Kind), Detail: "relay " + s.Kind + " " + s.Addr + " was closed more than once"})
		}
	}
	w.Net.mu.Unlock()
	if n, first := libGoroutines(); n > 0 {
		w.K.Violate(&Violation{Property: "C15", Class: "leak", Key: kv("kind", "goroutine"), Detail: first})
	}
}

func runOtherWorld(t *testing.T, k *Kernel, p *Plan, rec *RunRecord, keepLog bool) bool {
	switch p.World {
	case "frame":
		runFrameWorld(t, k, p, rec)
		return true
	case "cli":
		runCliWorld(t, k, p, rec)
		return true
	case "gen":
		runGenWorld(t, k, p, rec)
		return true
	case "xl":
		runXLWorld(t, k, p, rec)
		return true
	case "cred":
		runCredWorld(t, k, p, rec)
		return true
	case "tls":
		runTLSWorld(k, p, rec)
		return true
	}
	return false
}
