package sim

import "fmt"

// genC04XL: the cross-listener world (world_xl.go). Endpoints share client addresses across
// listeners on purpose; operations are spaced far apart and nothing is faulted.
func genC04XL(p *Plan, r *RNG) {
	p.World = "xl"
	p.Flavor = "cross-listener"
	p.Cfg = Config{Realm: "sim.realm", LatCSns: int64(r.Range(1, 15))*ms + 3, LatSPns: int64(r.Range(1, 10))*ms + 5, Extra: map[string]int64{}}
	p.Cfg.Users = []User{{"u1", "pw-one"}, {"u2", "pw-two"}}
	nl := 2
	if r.Chance(1, 2) {
		p.Cfg.Extra["udp2"] = 1
		nl = 3
	}
	if r.Chance(1, 3) {
		p.Cfg.Extra["sharegen"] = 1 // one generator instance for all listeners, no permission handler
		p.Flavor += "+shared-generator"
	}
	addrs := []string{"10.0.1.1:4000", "10.0.1.1:4001", "10.0.1.2:4000"}
	// one endpoint per (listener, address); the first two share an address across UDP and TCP
	type la struct {
		l int
		a string
	}
	used := map[la]bool{}
	add := func(l int, a string) {
		if used[la{l, a}] {
			return
		}
		used[la{l, a}] = true
		u := p.Cfg.Users[r.Intn(2)]
		p.Clients = append(p.Clients, ClientSpec{ID: fmt.Sprintf("e%d", len(p.Clients)+1), Addr: a, User: u.Name, Pass: u.Pass, L: l})
	}
	shared := addrs[r.Intn(2)]
	add(0, shared)
	add(1, shared)
	for k := r.Range(0, 3); k > 0; k-- {
		add(r.Intn(nl), addrs[r.Intn(len(addrs))])
	}
	p.Peers = []PeerSpec{{ID: "p1", Addr: "10.0.2.1:5000"}, {ID: "p2", Addr: "10.0.2.2:5017"}}
	gapOp := func() TimeSpec { return gap(int64(r.Range(600, 2500)) * ms) }
	ne := len(p.Clients)
	// everybody allocates early (in random order), then a random history
	order := r.Perm(ne)
	for _, i := range order {
		if r.Chance(5, 6) {
			p.Ops = append(p.Ops, Op{Actor: p.Clients[i].ID, Kind: "allocate", At: gapOp()})
		}
	}
	n := r.Range(6, 22)
	for i := 0; i < n; i++ {
		e := p.Clients[r.Intn(ne)]
		pi := r.Intn(2)
		peer, pid := p.Peers[pi].Addr, p.Peers[pi].ID
		switch w := r.Intn(100); {
		case w < 12:
			p.Ops = append(p.Ops, Op{Actor: e.ID, Kind: "allocate", At: gapOp()})
		case w < 32:
			p.Ops = append(p.Ops, Op{Actor: e.ID, Kind: "createperm", At: gapOp(), A: OpArgs{Peer: peer}})
		case w < 50:
			p.Ops = append(p.Ops, Op{Actor: e.ID, Kind: "send", At: gapOp(), A: OpArgs{Peer: peer, Len: r.Range(1, 200)}})
		case w < 72:
			p.Ops = append(p.Ops, Op{Actor: pid, Kind: "peer_send", At: gapOp(), A: OpArgs{Target: e.ID, Len: r.Range(1, 200)}})
		case w < 82:
			p.Ops = append(p.Ops, Op{Actor: e.ID, Kind: "refresh", At: gapOp(), A: OpArgs{Lifetime: r.PickI64([]int64{0, 0, 600})}})
		case w < 92:
			if e.L == 1 {
				p.Ops = append(p.Ops, Op{Actor: e.ID, Kind: "tcp_close", At: gapOp()})
			} else {
				p.Ops = append(p.Ops, Op{Actor: e.ID, Kind: "refresh", At: gapOp(), A: OpArgs{Lifetime: 0}})
			}
		default:
			p.Ops = append(p.Ops, Op{Actor: e.ID, Kind: "refresh", At: gapOp(), A: OpArgs{Lifetime: 600}})
		}
	}
	// probes at the end: every endpoint's relay once more
	for _, e := range p.Clients {
		p.Ops = append(p.Ops, Op{Actor: "p1", Kind: "peer_send", At: gapOp(), A: OpArgs{Target: e.ID, Len: 33}})
	}
	p.QuietNS = 2 * sec
}
