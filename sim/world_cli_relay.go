package sim

import "github.com/pion/turn/v5"

// relay-socket part of the client world (C13); filled in below.
func (c *callRec) mark() { c.marked = true }

func (w *CliWorld) execRelay(op *Op, cli *turn.Client) bool { return false }
func (w *CliWorld) checkRelay(final bool)                   {}
func (w *CliWorld) bgTransactions() int                     { return 0 }
