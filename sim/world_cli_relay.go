package sim

import (
	"bytes"
	"encoding/hex"
	"fmt"
	"net"
	"time"

	"github.com/pion/stun/v3"
	"github.com/pion/turn/v5"
	"github.com/pion/turn/v5/internal/client"
)

// relay-socket part of the client world (C13): WriteTo / ReadFrom / deadlines / Close on the
// client's relayed net.PacketConn against the scripted server.

func (c *callRec) mark() { c.marked = true }

func (w *CliWorld) bgTransactions() int {
	if w.relay != nil || w.tcpAlloc != nil || w.hostileStream() {
		return 1 << 20 // refresh traffic runs in the background (or a hostile stream has ended the client's read loop): the table is not judged
	}
	return 0
}

func (w *CliWorld) getRelay() net.PacketConn {
	w.mu.Lock()
	defer w.mu.Unlock()
	return w.relay
}

func (w *CliWorld) execRelay(op *Op, cli *turn.Client) bool {
	switch op.Kind {
	case "alloc":
		w.call(op, func(c *callRec) {
			conn, err := cli.Allocate()
			c.Err = err
			w.mu.Lock()
			if err == nil {
				w.relay = conn
			}
			w.mu.Unlock()
		})
	case "alloc_tcp":
		w.call(op, func(c *callRec) {
			a, err := cli.AllocateTCP()
			c.Err = err
			w.mu.Lock()
			if err == nil {
				w.tcpAlloc = a
			}
			w.mu.Unlock()
		})
	case "writeto":
		relay := w.getRelay()
		if relay == nil {
			return true
		}
		payload := MakePayload(w.P.Seed, op.Actor, op)
		peer := mustUDPAddr(op.A.Peer)
		if hasFlag(op, "ip4") {
			// the same address as a 4-byte net.IP (what a udp4 socket's LocalAddr or ReadFrom hands out)
			if v4 := peer.IP.To4(); v4 != nil {
				peer = &net.UDPAddr{IP: v4, Port: peer.Port}
			}
		}
		busy := false
		w.mu.Lock()
		for _, c := range w.calls {
			if c.Kind == "writeto" && !c.Done && c.Op != nil && hasFlag(c.Op, "reuseaddr") {
				busy = true // (a call that still runs may use the object: the application waits for its own calls)
			}
		}
		w.mu.Unlock()
		if hasFlag(op, "reuseaddr") && !busy && !w.K.Free {
			// the application keeps one address object and overwrites it before every call (what a
			// loop over destinations does): WriteTo may use it during the call, not keep it
			if w.sharedAddr == nil {
				w.sharedAddr = &net.UDPAddr{}
			}
			w.sharedAddr.IP = append(w.sharedAddr.IP[:0], peer.IP...)
			w.sharedAddr.Port = peer.Port
			peer = w.sharedAddr
		}
		w.call(op, func(c *callRec) {
			c.Data = payload
			c.N, c.Err = relay.WriteTo(payload, peer)
		})
	case "readfrom":
		relay := w.getRelay()
		if relay == nil {
			return true
		}
		w.call(op, func(c *callRec) {
			buf := make([]byte, 70000)
			n, from, err := relay.ReadFrom(buf)
			c.N, c.From, c.Err = n, from, err
			if err == nil {
				c.Data = append([]byte(nil), buf[:n]...)
			}
		})
	case "set_deadline":
		relay := w.getRelay()
		if relay == nil {
			return true
		}
		at := time.Now().Add(time.Duration(op.A.DurNS))
		w.mu.Lock()
		w.deadlines = append(w.deadlines, dlRec{Set: w.K.Now(), At: w.K.Now() + op.A.DurNS})
		w.mu.Unlock()
		w.call(op, func(c *callRec) { c.Err = relay.SetReadDeadline(at) })
	case "close_relay":
		relay := w.getRelay()
		if relay == nil {
			return true
		}
		w.mu.Lock()
		if !w.relayClosed {
			w.relayClosedAt = w.K.Now()
			w.relayClosed = true
		}
		w.mu.Unlock()
		w.call(op, func(c *callRec) { c.Err = relay.Close() })
	case "srv_data":
		payload := MakePayload(w.P.Seed, "srv", op)
		peer := mustUDPAddr(op.A.Peer)
		m, err := stun.Build(stun.TransactionID, stun.NewType(stun.MethodData, stun.ClassIndication), aPeer(peer.IP, peer.Port), aData(payload))
		if err != nil {
			Fatalf("build data ind: %v", err)
		}
		if hasFlag(op, "stranger") && !w.stream {
			// not from the server: a third party that knows the client's address sends it a Data
			// indication naming a peer. The server relayed nothing: ReadFrom returns nothing
			w.K.Stats.Probe("stranger_indication")
			w.Net.SendUDP(mustUDPAddr("10.0.3.9:7777"), w.cliAddr, m.Raw)
			return true
		}
		w.mu.Lock()
		w.injected = append(w.injected, injRec{T: w.K.Now(), Peer: ustr(peer), Data: payload, Known: true, Sure: true})
		w.mu.Unlock()
		w.srvSend(w.SrvAddr, w.cliAddr, m.Raw)
	case "srv_chandata":
		payload := MakePayload(w.P.Seed, "srv", op)
		if hasFlag(op, "stranger") && !w.stream {
			// the same message from a third address: the server relayed nothing
			w.K.Stats.Probe("stranger_chandata")
			w.Net.SendUDP(mustUDPAddr("10.0.3.9:7777"), w.cliAddr, buildChannelData(uint16(op.A.Chan), payload, true))
			return true
		}
		w.mu.Lock()
		peer, known := w.chanSeen[uint16(op.A.Chan)]
		if !known {
			// the client assigns channel numbers when WriteTo is first called for a peer, before the
			// ChannelBind request is on the wire: such a number may already be known to it
			for _, c := range w.calls {
				if c.Kind == "writeto" {
					known = true
				}
			}
		}
		sure := false
		if at, ok := w.chanSeenAt[uint16(op.A.Chan)]; ok && w.K.Now() > at+w.P.Cfg.LatCSns+ms {
			// the server has the ChannelBind request for this number; it accepts every one
			// unless the plan scripts a reaction to ChannelBind
			sure = true
			for _, re := range w.P.Reactions {
				if (re.Method == "" || re.Method == "chanbind") && re.Do != "ok" {
					sure = false // (a delayed success is still an acceptance: the binding exists from the receipt on)
				}
			}
		}
		w.injected = append(w.injected, injRec{T: w.K.Now(), Peer: peer, Data: payload, Chan: uint16(op.A.Chan), Known: known, Sure: sure})
		w.mu.Unlock()
		w.srvSend(w.SrvAddr, w.cliAddr, buildChannelData(uint16(op.A.Chan), payload, true))
	case "srv_connattempt":
		for i := 0; i < op.A.N; i++ {
			m, err := stun.Build(stun.TransactionID, stun.NewType(methodConnAttempt, stun.ClassIndication), aPeer(net.ParseIP("10.0.2.9"), 7000+i), aConnID(uint32(1000+i)))
			if err != nil {
				Fatalf("build connattempt: %v", err)
			}
			w.srvSend(w.SrvAddr, w.cliAddr, m.Raw)
		}
		w.K.Stats.Probe("connattempt_burst")
	case "srv_raw":
		b, _ := hex.DecodeString(op.A.Raw)
		from := w.SrvAddr
		if op.A.Peer != "" {
			from = mustUDPAddr(op.A.Peer) // a stranger
		}
		w.srvSend(from, w.cliAddr, b)
	case "handle_inbound":
		b, _ := hex.DecodeString(op.A.Raw)
		from := w.SrvAddr
		if op.A.Peer != "" {
			from = mustUDPAddr(op.A.Peer)
		}
		w.call(op, func(c *callRec) {
			handled, err := cli.HandleInbound(b, from)
			c.Err = err
			isSTUN := len(b) >= 20 && stun.IsMessage(b)
			_, _, isCD := parseChannelData(b)
			fromSrv := ustr(from) == ustr(w.SrvAddr)
			switch {
			case !handled && err != nil:
				w.viol("C09", "misclassified", kv("got", "unhandled+error"), "HandleInbound returned (false, %v): not one of the documented combinations", err)
			case (isSTUN || isCD) && !handled:
				w.viol("C09", "misclassified", kv("got", "unhandled", "want", "handled"), "a STUN/ChannelData-shaped datagram of %d bytes was reported as not handled", len(b))
			case !isSTUN && !isCD && !fromSrv && (handled || err != nil):
				w.viol("C09", "misclassified", kv("got", "handled", "want", "unhandled"), "application data from a stranger was reported as handled=%v err=%v", handled, err)
			case !isSTUN && !isCD && fromSrv && (!handled || err == nil):
				w.viol("C09", "misclassified", kv("got", "no-error", "want", "error"), "non-STUN data from the STUN server address must be (true, error), got (%v, %v)", handled, err)
			}
		})
	default:
		return false
	}
	return true
}

type dlRec struct{ Set, At int64 }

// noteWire is called (under w.mu) for everything the client writes: keeps the first-seen
// order needed by the C13 oracle.
func (w *CliWorld) relayWire(rec *wireRec, now int64) {
	switch rec.What {
	case "chanbind-req":
		if rec.Chan < 0x4000 || rec.Chan > 0x7FFF {
			w.viol("C13", "shared-or-invalid-channel", kv("why", "range"), "ChannelBind request for number 0x%04x", rec.Chan)
		}
		if w.chanSeen == nil {
			w.chanSeen = map[uint16]string{}
			w.peerChan = map[string]uint16{}
		}
		if p, ok := w.chanSeen[rec.Chan]; ok && p != rec.Peer {
			w.viol("C13", "shared-or-invalid-channel", kv("why", "shared"), "channel 0x%04x requested for %s and for %s", rec.Chan, p, rec.Peer)
		}
		if n, ok := w.peerChan[rec.Peer]; ok && n != rec.Chan {
			w.viol("C13", "shared-or-invalid-channel", kv("why", "two-numbers"), "peer %s bound to 0x%04x and 0x%04x", rec.Peer, n, rec.Chan)
		}
		w.chanSeen[rec.Chan] = rec.Peer
		if w.chanSeenAt == nil {
			w.chanSeenAt = map[uint16]int64{}
		}
		if _, ok := w.chanSeenAt[rec.Chan]; !ok {
			w.chanSeenAt[rec.Chan] = rec.T
		}
		w.peerChan[rec.Peer] = rec.Chan
	case "send-ind":
		ip := mustUDPAddr(rec.Peer).IP.String()
		if t, ok := w.permDelivered[ip]; !ok || t > now {
			w.viol("C13", "data-before-permission", kv("form", "send"), "Send indication toward %s on the wire although no CreatePermission/ChannelBind success for that IP has reached the client", rec.Peer)
		}
	case "chandata":
		cd, ok := w.chanDelivered[rec.Chan]
		if !ok || cd.T > now {
			w.viol("C13", "chandata-before-bind", nil, "ChannelData on 0x%04x on the wire although no ChannelBind success for that number has reached the client", rec.Chan)
			return
		}
		// which peer was this payload meant for?
		for _, c := range w.calls {
			if c.Kind == "writeto" && bytes.Equal(c.Data, rec.Data) {
				if want := ustr(mustUDPAddr(c.Op.A.Peer)); want != cd.Peer {
					w.viol("C13", "chandata-wrong-peer", nil, "payload written to %s went out on channel 0x%04x which the server bound to %s", want, rec.Chan, cd.Peer)
				}
				break
			}
		}
	}
}

type chanDel struct {
	Peer string
	T    int64
}

// relayDelivered is called (under w.mu) when a success response reaches the client.
func (w *CliWorld) relayDelivered(rr *respRec, now int64) {
	if !rr.OK {
		return
	}
	for _, ip := range rr.PermIPs {
		if _, ok := w.permDelivered[ip]; !ok {
			w.permDelivered[ip] = now
		}
	}
	if rr.Chan != 0 {
		if _, ok := w.chanDelivered[rr.Chan]; !ok {
			w.chanDelivered[rr.Chan] = chanDel{Peer: rr.ChanPeer, T: now}
		}
	}
}

// checkRelay: reads, deadlines, close, liveness.
func (w *CliWorld) checkRelay(final bool) {
	w.mu.Lock()
	defer w.mu.Unlock()
	now := w.K.Now()
	stalled := len(w.K.StallIntervals()) > 0
	// ReadFrom results must be injected payloads with the right source, in per-peer order, once
	used := map[int]bool{}
	lastIdx := map[string]int{}
	for _, c := range w.calls {
		if c.Kind != "readfrom" || !c.Done || c.Err != nil {
			continue
		}
		idx := -1
		for i, in := range w.injected {
			if !used[i] && bytes.Equal(in.Data, c.Data) {
				idx = i
				break
			}
		}
		if idx < 0 {
			if !c.marked {
				c.mark()
				dup := false
				for _, in := range w.injected {
					if bytes.Equal(in.Data, c.Data) {
						dup = true
					}
				}
				if dup {
					w.viol("C13", "read-mismatch", kv("field", "duplicate"), "ReadFrom returned a payload of %d bytes more often than the server relayed it", len(c.Data))
				} else {
					w.viol("C13", "read-mismatch", kv("field", "payload"), "ReadFrom returned %d bytes that the server never relayed", len(c.Data))
				}
			}
			continue
		}
		used[idx] = true
		in := w.injected[idx]
		from := ""
		if ua, ok := c.From.(*net.UDPAddr); ok {
			from = ustr(ua)
		}
		if in.Peer != "" && from != in.Peer && !c.marked {
			c.mark()
			w.viol("C13", "read-mismatch", kv("field", "address"), "payload relayed from %s (chan 0x%04x) was returned by ReadFrom with address %s", in.Peer, in.Chan, from)
		}
		if !in.Known && in.Chan != 0 && !c.marked {
			c.mark()
			w.viol("C13", "read-mismatch", kv("field", "unknown-channel"), "ChannelData on channel 0x%04x, which the client never bound, was delivered to ReadFrom", in.Chan)
		}
		if li, ok := lastIdx[in.Peer]; ok && idx < li && !c.marked {
			c.mark()
			w.viol("C13", "read-mismatch", kv("field", "order"), "payloads from %s were returned out of order", in.Peer)
		}
		lastIdx[in.Peer] = idx
	}
	// a read deadline that has passed fails every ReadFrom, also one that finds a datagram waiting
	for _, c := range w.calls {
		if c.Kind != "readfrom" || !c.Done || c.Err != nil || c.marked || stalled || c.TEnd != c.TStart {
			continue
		}
		cur := int64(-1)
		for _, d := range w.deadlines {
			if d.Set < c.TStart {
				cur = d.At
			}
		}
		if cur >= 0 && cur < c.TStart && !(w.relayClosed && w.relayClosedAt <= c.TStart) {
			c.mark()
			w.viol("C13", "deadline-ignored", kv("how", "expired-returns-data"), "ReadFrom called at %d returned a datagram although the read deadline had passed at %d", c.TStart, cur)
		}
	}
	// blocked readers: deadline and Close must unblock them at that very instant
	for _, c := range w.calls {
		if c.Kind != "readfrom" || c.marked {
			continue
		}
		if c.Done && c.Err != nil && !stalled {
			want := w.unblockInstant(c)
			if want >= 0 && c.TEnd != want && final {
				c.mark()
				w.viol("C13", "deadline-ignored", kv("how", "instant"), "blocked ReadFrom (since %d) returned %v at %d, expected to be released at %d", c.TStart, c.Err, c.TEnd, want)
			}
		}
		if !c.Done && final && !stalled {
			want := w.unblockInstant(c)
			if want >= 0 && now > want+ms {
				c.mark()
				cls := "deadline-ignored"
				if w.relayClosed && want == w.relayClosedAt {
					cls = "close-ignored"
				}
				w.viol("C13", cls, kv("how", "stuck"), "ReadFrom blocked since %d is still blocked at %d although it had to be released at %d", c.TStart, now, want)
			}
		}
	}
	if final {
		// every injected payload that had a reader waiting must have been delivered when nothing was lost
		w.livenessRelay(now, stalled)
		// a reader that waited to the end with no deadline, while a payload the client had to
		// accept was relayed to it (relay open, queue far from full) and never came out
		allocEnd := int64(-1)
		for _, c := range w.calls {
			if c.Kind == "alloc" && c.Done && c.Err == nil {
				allocEnd = c.TEnd
			}
		}
		var waiting *callRec
		for _, c := range w.calls {
			if c.Kind == "readfrom" && !c.Done && w.unblockInstant(c) < 0 {
				waiting = c
			}
		}
		if waiting != nil && allocEnd >= 0 && len(w.injected) < 900 && !w.lostReported {
			for i, in := range w.injected {
				if used[i] || !in.Sure || in.T <= allocEnd+ms || (w.relayClosed && in.T >= w.relayClosedAt-sec) || (w.closed && in.T >= w.closedAt-sec) {
					continue
				}
				w.lostReported = true
				w.viol("C13", "read-lost", kv("form", map[bool]string{true: "chandata", false: "data"}[in.Chan != 0]),
					"payload of %d bytes relayed by the server at %d (peer %s, channel 0x%04x) was never returned although a ReadFrom (since %d) waited to the end of the run", len(in.Data), in.T, in.Peer, in.Chan, waiting.TStart)
				break
			}
		}
	}
}

// unblockInstant: when a ReadFrom that finds no data must return (deadline / close), -1 = never.
func (w *CliWorld) unblockInstant(c *callRec) int64 {
	const none = int64(-1)
	if w.relayClosed && w.relayClosedAt <= c.TStart {
		return c.TStart
	}
	cur := none
	for _, d := range w.deadlines {
		if d.Set <= c.TStart {
			cur = d.At
		}
	}
	if cur != none && cur <= c.TStart {
		return c.TStart
	}
	closeAt := none
	if w.relayClosed {
		closeAt = w.relayClosedAt
	}
	for _, d := range w.deadlines {
		if d.Set <= c.TStart {
			continue
		}
		if closeAt != none && closeAt <= d.Set {
			break
		}
		if cur != none && cur <= d.Set {
			return cur
		}
		cur = d.At
		if cur != none && cur <= d.Set {
			return d.Set
		}
	}
	switch {
	case cur != none && closeAt != none:
		return minI(cur, closeAt)
	case cur != none:
		return cur
	}
	return closeAt
}

func (w *CliWorld) livenessRelay(now int64, stalled bool) {
	if w.hostileStream() {
		return // bytes that cannot start a frame end a stream for good: only crashes, spins and hangs are judged there
	}
	if stalled {
		return // a stalled client may legitimately miss its retransmission schedule
	}
	for _, c := range w.calls {
		if c.probed || c.Op == nil || !hasFlag(c.Op, "probe") {
			continue
		}
		c.probed = true
		if !c.Done || c.Err != nil {
			prop, cls := "C13", "inbound-blocked"
			if w.P.Property == "C09" {
				prop, cls = "C09", "dead-after-input"
			}
			w.viol(prop, cls, kv("by", w.P.Flavor), "liveness probe (%s) after inbound bursts did not succeed: done=%v err=%v - the client's inbound path is blocked", c.Kind, c.Done, c.Err)
		}
	}
}

var _ = fmt.Sprintf
var _ client.TransactionResult
