package sim

import "fmt"

func init() { generators["C14"] = genC14 }

// genC14: a real client against the real server for hours of protocol time.
// genC14LatePeer: a peer that is written to exactly once, at the moment the client's nonce
// has just gone stale, and from then on only sends.
func genC14LatePeer(p *Plan, r *RNG) {
	baseSrvConfig(p, r)
	p.Flavor = "e2e-late-peer"
	p.Cfg.LatCSns = int64(r.Range(1, 60))*ms + 3
	p.Cfg.LatSPns = int64(r.Range(1, 30))*ms + 5
	p.Cfg.Extra = map[string]int64{}
	p.Cfg.AllocLifeS = r.PickInt([]int{0, 600, 3600})
	p.Clients = []ClientSpec{{ID: "c1", Addr: "10.0.1.1:4000", User: "u1", Pass: "pw-one", Kind: "real"}}
	p.Peers = []PeerSpec{{ID: "p1", Addr: "10.0.2.1:5000"}, {ID: "p2", Addr: "10.0.2.2:5017"}}
	p.Ops = append(p.Ops, Op{Actor: "c1", Kind: "alloc", At: gap(50 * ms)})
	if r.Chance(2, 3) {
		p.Ops = append(p.Ops, Op{Actor: "c1", Kind: "writeto", At: gap(int64(r.Range(500, 3000)) * ms), A: OpArgs{Peer: p.Peers[0].Addr, Len: 50}})
	}
	// the late peer: first (and only) write somewhere around the end of the first nonce hour
	p.Ops = append(p.Ops, Op{Actor: "c1", Kind: "writeto", At: gap(int64(r.Range(3590, 3800)) * sec), A: OpArgs{Peer: p.Peers[1].Addr, Len: 60}})
	t := int64(0)
	for t < 700*sec {
		g := int64(r.Range(5, 60)) * sec
		t += g
		p.Ops = append(p.Ops, Op{Actor: "p2", Kind: "peer_send", At: gap(g), A: OpArgs{Target: "c1", Len: r.Range(20, 100)}})
	}
	p.QuietNS = 10 * sec
}

// genC14Pair: two real clients whose peers are each other's relayed addresses: every datagram
// crosses the library four times (client, relay, relay, client), channel bindings and
// permissions on both allocations name a relayed address of the same server, and both clients
// keep all of it alive for hours.
func genC14Pair(p *Plan, r *RNG) {
	baseSrvConfig(p, r)
	p.Flavor = "e2e-pair"
	p.Cfg.LatCSns = int64(r.Range(1, 80))*ms + int64(r.Intn(1000))*7 + 3
	p.Cfg.LatSPns = int64(r.Range(1, 30))*ms + 5
	p.Cfg.RTOms = r.PickInt([]int{0, 100, 200})
	p.Cfg.Extra = map[string]int64{"perm_refresh_s": int64(r.PickInt([]int{0, 0, 30}))}
	p.Cfg.AllocLifeS = r.PickInt([]int{0, 60, 600, 3600})
	p.Cfg.ChanTimeoutS = r.PickInt([]int{0, 600, 1200})
	p.Clients = []ClientSpec{{ID: "c1", Addr: "10.0.1.1:4000", User: "u1", Pass: "pw-one", Kind: "real"},
		{ID: "c2", Addr: "10.0.1.2:4013", User: "u2", Pass: "pw-two", Kind: "real"}}
	p.Peers = []PeerSpec{{ID: "p1", Addr: "10.0.2.1:5000"}}
	p.Ops = append(p.Ops, Op{Actor: "c1", Kind: "alloc", At: gap(50 * ms)})
	p.Ops = append(p.Ops, Op{Actor: "c2", Kind: "alloc", At: gap(int64(r.Range(10, 900)) * ms)})
	p.Ops = append(p.Ops, Op{Actor: "", Kind: "wait", At: gap(1500 * ms)})
	p.Ops = append(p.Ops, Op{Actor: "c1", Kind: "writeto", At: gap(int64(r.Range(10, 900)) * ms), A: OpArgs{Peer: "@c2", Len: 40}})
	p.Ops = append(p.Ops, Op{Actor: "c2", Kind: "writeto", At: gap(int64(r.Range(10, 900)) * ms), A: OpArgs{Peer: "@c1", Len: 40}})
	hours := r.Range(1, 4)
	total := int64(hours) * 3600 * sec
	var t int64
	for t < total && len(p.Ops) < 110 {
		g := int64(r.Range(1, 300)) * sec
		if r.Chance(1, 4) {
			g = int64(r.Range(20, 2000)) * ms
		}
		if r.Chance(1, 8) {
			g = int64(r.Range(1000, 4000)) * sec
		}
		t += g
		switch r.Intn(5) {
		case 0, 1:
			p.Ops = append(p.Ops, Op{Actor: "c1", Kind: "writeto", At: gap(g), A: OpArgs{Peer: "@c2", Len: r.Range(1, 400)}})
		case 2, 3:
			p.Ops = append(p.Ops, Op{Actor: "c2", Kind: "writeto", At: gap(g), A: OpArgs{Peer: "@c1", Len: r.Range(1, 400)}})
		case 4:
			// an ordinary peer besides
			if r.Chance(1, 2) {
				p.Ops = append(p.Ops, Op{Actor: "c1", Kind: "writeto", At: gap(g), A: OpArgs{Peer: p.Peers[0].Addr, Len: r.Range(20, 200)}})
			} else {
				p.Ops = append(p.Ops, Op{Actor: "p1", Kind: "peer_send", At: gap(g), A: OpArgs{Target: "c1", Len: r.Range(20, 200)}})
			}
		}
	}
	if r.Chance(1, 2) {
		p.Ops = append(p.Ops, Op{Actor: r.Pick([]string{"c1", "c2"}), Kind: "close_relay", At: gap(int64(r.Range(1, 600)) * sec)})
		p.Ops = append(p.Ops, Op{Actor: "c1", Kind: "writeto", At: gap(int64(r.Range(1, 20)) * sec), A: OpArgs{Peer: "@c2", Len: 33}})
		p.Ops = append(p.Ops, Op{Kind: "wait", At: gap(10 * sec)})
	}
	p.QuietNS = 10 * sec
}

// genC14ManyPeers: a client that talks to well over a hundred peers (distinct IP addresses): the
// periodic refresh has that many permissions to renew. Afterwards a datagram from another port
// of one of those hosts - no channel covers it, only the permission - must still get through.
func genC14ManyPeers(p *Plan, r *RNG) {
	baseSrvConfig(p, r)
	p.Flavor = "e2e-manypeers"
	p.Cfg.LatCSns = int64(r.Range(1, 30))*ms + 3
	p.Cfg.LatSPns = int64(r.Range(1, 20))*ms + 5
	p.Cfg.Extra = map[string]int64{}
	p.Cfg.AllocLifeS = 3600
	p.Clients = []ClientSpec{{ID: "c1", Addr: "10.0.1.1:4000", User: "u1", Pass: "pw-one", Kind: "real"}}
	np := r.PickInt([]int{60, 120, 126, 140, 200})
	for i := 0; i < np; i++ {
		p.Peers = append(p.Peers, PeerSpec{ID: fmt.Sprintf("p%d", i+1), Addr: fmt.Sprintf("10.0.%d.%d:%d", 2+i/200, 1+i%200, 5000+i)})
	}
	p.Ops = append(p.Ops, Op{Actor: "c1", Kind: "alloc", At: gap(50 * ms)})
	p.Ops = append(p.Ops, Op{Actor: "", Kind: "wait", At: gap(sec)})
	for i := 0; i < np; i++ {
		p.Ops = append(p.Ops, Op{Actor: "c1", Kind: "writeto", At: gap(int64(r.Range(20, 120)) * ms), A: OpArgs{Peer: p.Peers[i].Addr, Len: 30}})
	}
	for k := r.Range(2, 5); k > 0; k-- {
		pi := r.Intn(np)
		o := Op{Actor: p.Peers[pi].ID, Kind: "peer_send", At: gap(int64(r.Range(200, 700)) * sec), A: OpArgs{Target: "c1", Len: r.Range(20, 100)}}
		if r.Chance(2, 3) {
			o.A.N = 6000 + r.Intn(3)
		}
		p.Ops = append(p.Ops, o)
		p.Ops = append(p.Ops, Op{Actor: "c1", Kind: "writeto", At: gap(int64(r.Range(1, 5)) * sec), A: OpArgs{Peer: p.Peers[r.Intn(np)].Addr, Len: 40}})
	}
	if r.Chance(1, 2) {
		// across the nonce hour with a permission timeout that leaves the 2-minute refresh little
		// room: the round that meets the stale nonce has to be made good at once, for every
		// request of it. The probes come from ports the client has no channel for - what lets
		// them in is the permission alone - every few seconds while the hour ends
		p.Flavor += "+nonce-hour"
		p.Cfg.PermTimeoutS = r.PickInt([]int{150, 180, 200, 239})
		var t int64
		for _, o := range p.Ops {
			t += o.At.GapNS
		}
		first := true
		for at := 3590*sec + int64(r.Intn(20))*sec; at < 4000*sec; at += int64(r.Range(4, 25)) * sec {
			g := gap(at - t)
			if first && at <= t {
				g = gap(sec)
			}
			first = false
			t = at
			if t < 0 {
				break
			}
			p.Ops = append(p.Ops, Op{Actor: p.Peers[r.Intn(np)].ID, Kind: "peer_send", At: g, A: OpArgs{Target: "c1", Len: r.Range(20, 100), N: 6000 + r.Intn(3)}})
		}
	}
	p.QuietNS = 10 * sec
}

// genC14Realloc: the application closes its relayed socket and allocates again on the same
// client - at once, or seconds later - while the answer to the Refresh(0) of the Close is
// lost. The second allocation is a live client's: it stays.
func genC14Realloc(p *Plan, r *RNG) {
	baseSrvConfig(p, r)
	p.Flavor = "e2e-realloc"
	p.Cfg.LatCSns = int64(r.Range(1, 8))*ms + 3
	p.Cfg.LatSPns = int64(r.Range(1, 8))*ms + 5
	p.Cfg.RTOms = r.PickInt([]int{100, 200})
	p.Cfg.Extra = map[string]int64{}
	p.Clients = []ClientSpec{{ID: "c1", Addr: "10.0.1.1:4000", User: "u1", Pass: "pw-one", Kind: "real"}}
	p.Peers = []PeerSpec{{ID: "p1", Addr: "10.0.2.1:5000"}}
	peer := p.Peers[0].Addr
	add := func(o Op) { p.Ops = append(p.Ops, o) }
	add(Op{Actor: "c1", Kind: "alloc", At: gap(50 * ms)})
	add(Op{Actor: "", Kind: "wait", At: gap(sec)})
	add(Op{Actor: "c1", Kind: "writeto", At: gap(500 * ms), A: OpArgs{Peer: peer, Len: 30}})
	add(Op{Actor: "p1", Kind: "peer_send", At: gap(int64(r.Range(6, 20)) * sec), A: OpArgs{Target: "c1", Len: 40}})
	add(Op{Actor: "c1", Kind: "close_relay", At: gap(int64(r.Range(1, 5)) * sec)})
	var tClose int64
	for _, o := range p.Ops {
		tClose += o.At.GapNS
	}
	if r.Chance(1, 3) {
		// the server has one relay port: the second allocation gets the relayed address of the
		// first. The application's deferred Close of the old socket comes after that - it closes
		// nothing, and the new socket goes on receiving
		p.Flavor += "+same-address+close-again"
		p.Cfg.Extra["real_gen"] = 100
		add(Op{Actor: "c1", Kind: "alloc", At: gap(r.PickI64([]int64{50 * ms, sec, 12 * sec}))})
		add(Op{Actor: "", Kind: "wait", At: gap(1500 * ms)})
		add(Op{Actor: "c1", Kind: "writeto", At: gap(500 * ms), A: OpArgs{Peer: peer, Len: 31}})
		add(Op{Actor: "c1", Kind: "close_old", At: gap(int64(r.Range(1, 5)) * sec)})
		for k := r.Range(2, 5); k > 0; k-- {
			if r.Chance(1, 3) {
				add(Op{Actor: "c1", Kind: "writeto", At: gap(int64(r.Range(6, 40)) * sec), A: OpArgs{Peer: peer, Len: r.Range(20, 100)}})
			} else {
				add(Op{Actor: "p1", Kind: "peer_send", At: gap(int64(r.Range(6, 40)) * sec), A: OpArgs{Target: "c1", Len: r.Range(20, 100)}})
			}
		}
		p.QuietNS = 10 * sec
		return
	}
	if r.Chance(3, 4) {
		// the answer to the Refresh(0) does not get through
		d := r.PickI64([]int64{60 * ms, 150 * ms, 700 * ms})
		p.NetFaults = append(p.NetFaults, NetFault{M: Match{Flow: "srv>c1"}, Do: "partition", Arg: d, AtNS: tClose})
		add(Op{Actor: "c1", Kind: "alloc", At: gap(d + r.PickI64([]int64{10 * ms, 100 * ms, sec, 3 * sec, 12 * sec}))})
	} else {
		add(Op{Actor: "c1", Kind: "alloc", At: gap(r.PickI64([]int64{ms, 50 * ms, sec, 12 * sec}))})
	}
	add(Op{Actor: "", Kind: "wait", At: gap(1500 * ms)})
	add(Op{Actor: "c1", Kind: "writeto", At: gap(500 * ms), A: OpArgs{Peer: peer, Len: 31}})
	for k := r.Range(2, 5); k > 0; k-- {
		if r.Chance(1, 2) {
			add(Op{Actor: "c1", Kind: "writeto", At: gap(int64(r.Range(3, 40)) * sec), A: OpArgs{Peer: peer, Len: r.Range(20, 100)}})
		} else {
			add(Op{Actor: "p1", Kind: "peer_send", At: gap(int64(r.Range(6, 40)) * sec), A: OpArgs{Target: "c1", Len: r.Range(20, 100)}})
		}
	}
	p.QuietNS = 10 * sec
}

// genC14SilentPeer: a TCP allocation whose application once dials a peer that never answers
// (a host behind a filter that drops SYNs; nothing is lost between client and server). The Dial
// fails, as it must. The allocation is a live client's all the same: a quarter of an hour later
// a Dial to a peer that is there has to work.
func genC14SilentPeer(p *Plan, r *RNG) {
	baseSrvConfig(p, r)
	p.Flavor = "e2e-tcprelay-silent-peer"
	p.Cfg.Listener = "tcp"
	p.Cfg.Extra = map[string]int64{"tcp_peers": 1, "silent_peer": 1}
	p.Cfg.LatCSns = int64(r.Range(1, 40))*ms + 3
	p.Cfg.LatSPns = int64(r.Range(1, 20))*ms + 5
	p.Cfg.AllocLifeS = r.PickInt([]int{0, 600})
	p.Clients = []ClientSpec{{ID: "c1", Addr: "10.0.1.1:4000", User: "u1", Pass: "pw-one", Kind: "real"}}
	p.Peers = []PeerSpec{{ID: "p1", Addr: "10.0.2.1:5000"}, {ID: "p2", Addr: "10.0.2.2:5017"}}
	add := func(o Op) { p.Ops = append(p.Ops, o) }
	add(Op{Actor: "c1", Kind: "alloc_tcp", At: gap(sec)})
	add(Op{Actor: "", Kind: "wait", At: gap(1500 * ms)})
	if r.Chance(1, 2) {
		add(Op{Actor: "c1", Kind: "dial", At: gap(int64(r.Range(1, 20)) * sec), A: OpArgs{Peer: p.Peers[0].Addr, Flags: []string{"expect"}}})
		add(Op{Actor: "c1", Kind: "conn_write", At: gap(sec), A: OpArgs{N: 0, Len: 100}})
	}
	add(Op{Actor: "c1", Kind: "dial", At: gap(int64(r.Range(1, 250)) * sec), A: OpArgs{Peer: silentPeerAddr}})
	add(Op{Actor: "c1", Kind: "dial", At: gap(int64(r.Range(950, 1500)) * sec), A: OpArgs{Peer: p.Peers[1].Addr, Flags: []string{"expect"}}})
	add(Op{Actor: "", Kind: "wait", At: gap(20 * sec)})
	p.QuietNS = 30 * sec
}

// genC14SilentNeighbour: the same black hole seen from next door. A UDP listener has one read
// loop for all its clients; another client of it (a scripted one with a TCP allocation) asks
// for connections to a peer that never answers, every few seconds like an application that
// retries. The real client beside it did nothing but live: its allocation is refreshed, its
// permission and channel too, and a quarter of an hour later data flows both ways.
func genC14SilentNeighbour(p *Plan, r *RNG) {
	baseSrvConfig(p, r)
	p.Flavor = "e2e-silent-neighbour"
	p.Cfg.Extra = map[string]int64{"tcp_peers": 1, "silent_peer": 1}
	p.Cfg.LatCSns = int64(r.Range(1, 40))*ms + 3
	p.Cfg.LatSPns = int64(r.Range(1, 20))*ms + 5
	p.Cfg.AllocLifeS = r.PickInt([]int{0, 600})
	p.Clients = []ClientSpec{{ID: "c1", Addr: "10.0.1.1:4000", User: "u1", Pass: "pw-one", Kind: "real"},
		{ID: "c2", Addr: "10.0.1.2:4013", User: "u2", Pass: "pw-two"}}
	p.Peers = []PeerSpec{{ID: "p1", Addr: "10.0.2.1:5000"}}
	peer := p.Peers[0].Addr
	add := func(o Op) { p.Ops = append(p.Ops, o) }
	add(Op{Actor: "c1", Kind: "alloc", At: gap(50 * ms)})
	add(Op{Actor: "", Kind: "wait", At: gap(sec)})
	add(Op{Actor: "c1", Kind: "writeto", At: gap(500 * ms), A: OpArgs{Peer: peer, Len: 30}})
	add(Op{Actor: "p1", Kind: "peer_send", At: gap(6 * sec), A: OpArgs{Target: "c1", Len: 40}})
	add(Op{Actor: "c2", Kind: "allocate", At: gap(int64(r.Range(1, 200)) * sec), A: OpArgs{Lifetime: -1, Transport: "tcp"}})
	for k := r.Range(5, 8); k > 0; k-- {
		add(Op{Actor: "c2", Kind: "connect", At: gap(int64(r.Range(2, 12)) * sec), A: OpArgs{Peer: silentPeerAddr}})
	}
	add(Op{Actor: "c1", Kind: "writeto", At: gap(int64(r.Range(1000, 1500)) * sec), A: OpArgs{Peer: peer, Len: 41}})
	add(Op{Actor: "p1", Kind: "peer_send", At: gap(int64(r.Range(5, 30)) * sec), A: OpArgs{Target: "c1", Len: 42}})
	add(Op{Actor: "c1", Kind: "writeto", At: gap(int64(r.Range(5, 30)) * sec), A: OpArgs{Peer: peer, Len: 43}})
	p.QuietNS = 30 * sec
}

func genC14(p *Plan, r *RNG) {
	if r.Chance(1, 30) {
		genC14ManyPeers(p, r)
		return
	}
	if r.Chance(1, 12) {
		genC14Realloc(p, r)
		return
	}
	if r.Chance(1, 12) {
		genC14Backpressure(p, r)
		return
	}
	if r.Chance(1, 6) {
		genC14LatePeer(p, r)
		return
	}
	if r.Chance(1, 6) {
		genC14Pair(p, r)
		return
	}
	if r.Chance(1, 8) {
		// the RFC 6062 allocation of a live client: Dial and Accept hours apart
		genRealTCP(p, r, true)
		return
	}
	if r.Chance(1, 25) {
		genC14SilentPeer(p, r)
		return
	}
	if r.Chance(1, 30) {
		genC14SilentNeighbour(p, r)
		return
	}
	baseSrvConfig(p, r)
	p.Flavor = "e2e"
	if r.Chance(1, 5) {
		p.Cfg.Listener = "tcp" // the real client speaks TURN over a stream (STUNConn)
	}
	p.Cfg.LatCSns = int64(r.Range(1, 120))*ms + int64(r.Intn(1000))*7 + 3
	p.Cfg.LatSPns = int64(r.Range(1, 60))*ms + int64(r.Intn(1000))*11 + 5
	p.Cfg.RTOms = r.PickInt([]int{0, 100, 200})
	permRefresh := r.PickInt([]int{0, 0, 15, 60})
	p.Cfg.Extra = map[string]int64{"perm_refresh_s": int64(permRefresh)}
	pr := 120
	if permRefresh != 0 {
		pr = permRefresh
	}
	// server timeouts compatible with the client's refresh cadence
	p.Cfg.PermTimeoutS = r.PickInt([]int{0, pr + 10, pr + 60, 300, 600})
	if p.Cfg.PermTimeoutS != 0 && p.Cfg.PermTimeoutS < pr+10 {
		p.Cfg.PermTimeoutS = pr + 10
	}
	if p.Cfg.PermTimeoutS == 0 && pr > 120 {
		p.Cfg.PermTimeoutS = pr + 10
	}
	p.Cfg.ChanTimeoutS = r.PickInt([]int{0, 340, 600, 1200})
	p.Cfg.AllocLifeS = r.PickInt([]int{0, 20, 60, 600, 1800, 3600, 7200, 9000})
	np := r.Range(1, 4)
	if r.Chance(1, 10) {
		np = 8
	}
	p.Clients = []ClientSpec{{ID: "c1", Addr: "10.0.1.1:4000", User: "u1", Pass: "pw-one", Kind: "real"}}
	for i := 0; i < np; i++ {
		p.Peers = append(p.Peers, PeerSpec{ID: fmt.Sprintf("p%d", i+1), Addr: fmt.Sprintf("10.0.2.%d:%d", 1+i, 5000+i*17)})
	}
	p.Ops = append(p.Ops, Op{Actor: "c1", Kind: "alloc", At: gap(50 * ms)})
	// some peers are first written to only late in the run (possibly with a nonce gone stale)
	late := 0
	if np > 1 && r.Chance(1, 2) {
		late = r.Range(1, np-1)
	}
	// open the other peers at once (permission + channel)
	for i := 0; i < np-late; i++ {
		p.Ops = append(p.Ops, Op{Actor: "c1", Kind: "writeto", At: gap(int64(r.Range(500, 3000)) * ms), A: OpArgs{Peer: p.Peers[i].Addr, Len: r.Range(20, 200)}})
	}
	hours := r.Range(1, 8)
	if p.Tier == "quick" {
		hours = r.Range(1, 4)
	}
	total := int64(hours) * 3600 * sec
	var t int64
	idle := r.Chance(1, 3) // long idle periods
	for t < total {
		g := int64(r.Range(1, 400)) * sec
		if idle && r.Chance(1, 3) {
			g = int64(r.Range(1000, 5000)) * sec
		}
		if r.Chance(1, 5) {
			g = int64(r.Range(50, 2000)) * ms
		}
		t += g
		pi := r.Intn(np - late)
		if late > 0 && t > int64(r.Range(3000, 4200))*sec {
			pi = r.Intn(np) // the late peers join once the first nonce hour has passed
		}
		if r.Chance(1, 2) {
			p.Ops = append(p.Ops, Op{Actor: "c1", Kind: "writeto", At: gap(g), A: OpArgs{Peer: p.Peers[pi].Addr, Len: r.Range(20, 300)}})
		} else {
			o := Op{Actor: p.Peers[pi].ID, Kind: "peer_send", At: gap(g), A: OpArgs{Target: "c1", Len: r.Range(20, 300)}}
			if r.Chance(1, 3) {
				// another port of the same host (an RTP/RTCP pair): covered by the permission for
				// that IP, never by the channel the client bound to the first port
				o.A.N = 6000 + r.Intn(3)
			}
			p.Ops = append(p.Ops, o)
		}
		if len(p.Ops) > 120 {
			break
		}
	}
	if r.Chance(2, 3) {
		p.Ops = append(p.Ops, Op{Actor: "c1", Kind: "close_relay", At: gap(int64(r.Range(1, 4000)) * sec)})
		p.Ops = append(p.Ops, Op{Kind: "wait", At: gap(10 * sec)})
	}
	// budgeted loss / duplication / delay on the control channel: spaced so that every
	// transaction keeps at least one request and its response
	if r.Chance(1, 2) {
		kinds := []string{"refresh-req", "createperm-req", "chanbind-req", "refresh-ok", "createperm-ok", "chanbind-ok", "allocate-req", "allocate-err", "allocate-ok", "refresh-err"}
		for k := r.Range(1, 6); k > 0; k-- {
			kind := r.Pick(kinds)
			flow := "c1>srv"
			if kind[len(kind)-3:] != "req" {
				flow = "srv>c1"
			}
			do := r.Pick([]string{"drop", "drop", "dup", "delay"})
			p.NetFaults = append(p.NetFaults, NetFault{M: Match{Flow: flow, What: kind, Nth: 1 + 3*r.Intn(20)}, Do: do, Arg: int64(r.Range(1, 400)) * ms})
		}
		p.Flavor = "e2e+loss"
	}
	if p.Cfg.Listener != "tcp" && r.Chance(1, 4) {
		// the path between client and server is cut for a while and heals: shorter than the
		// span of a transaction's retransmissions, so no transaction loses all of them
		total := int64(0)
		for _, o := range p.Ops {
			total += o.At.GapNS
		}
		var writeAt []int64
		acc := int64(0)
		for _, o := range p.Ops {
			acc += o.At.GapNS
			if o.Kind == "writeto" {
				writeAt = append(writeAt, acc)
			}
		}
		for k := r.Range(1, 3); k > 0; k-- {
			// inside work: just before an application write (its CreatePermission / ChannelBind
			// then start inside the cut), at a permission-refresh tick, or anywhere
			at := 10*sec + int64(r.Intn(int(total/sec)+1))*sec + int64(r.Intn(1000))*ms
			switch r.Intn(3) {
			case 0:
				if len(writeAt) > 0 {
					at = writeAt[r.Intn(len(writeAt))] - int64(r.Range(1, 300))*ms
				}
			case 1:
				at = int64(r.Range(1, int(total/(120*sec))+1))*120*sec + int64(r.Range(0, 600))*ms
			}
			if at < sec {
				at = sec
			}
			d := r.PickI64([]int64{300 * ms, sec, 2 * sec, 4 * sec})
			p.NetFaults = append(p.NetFaults, NetFault{M: Match{Flow: "c1>srv"}, Do: "partition", Arg: d, AtNS: at},
				NetFault{M: Match{Flow: "srv>c1"}, Do: "partition", Arg: d, AtNS: at})
		}
		p.Flavor += "+partition"
	}
	if p.Cfg.Listener == "tcp" {
		p.Flavor += "-tcp"
		p.Ops[0].At = gap(sec) // the control connection has to be up before the first call
	}
	p.QuietNS = 10 * sec
}

// genC14Backpressure: a real client over a stream whose windows are tiny in both directions,
// with traffic in both directions and many transactions in flight (every new peer costs a
// CreatePermission and a ChannelBind, and with responses this slow the client retransmits).
// Everything is slow; nothing may stop: each side must go on reading while it waits to write.
func genC14Backpressure(p *Plan, r *RNG) {
	baseSrvConfig(p, r)
	p.Flavor = "e2e-tcp-backpressure"
	p.Cfg.Listener = "tcp"
	p.Cfg.LatCSns = int64(r.Range(5, 60))*ms + 3
	p.Cfg.LatSPns = int64(r.Range(1, 10))*ms + 5
	p.Cfg.RTOms = r.PickInt([]int{50, 100, 200})
	p.Cfg.Extra = map[string]int64{}
	p.Streams = []StreamCut{{Conn: "*", Window: r.PickInt([]int{600, 1024, 2048, 4096})}}
	p.Clients = []ClientSpec{{ID: "c1", Addr: "10.0.1.1:4000", User: "u1", Pass: "pw-one", Kind: "real"}}
	np := r.Range(3, 8)
	for i := 0; i < np; i++ {
		p.Peers = append(p.Peers, PeerSpec{ID: fmt.Sprintf("p%d", i+1), Addr: fmt.Sprintf("10.0.2.%d:%d", 1+i, 5000+i*17)})
	}
	add := func(o Op) { p.Ops = append(p.Ops, o) }
	add(Op{Actor: "c1", Kind: "alloc", At: gap(sec)})
	add(Op{Actor: "", Kind: "wait", At: gap(2 * sec)})
	add(Op{Actor: "c1", Kind: "writeto", At: gap(100 * ms), A: OpArgs{Peer: p.Peers[0].Addr, Len: 40}})
	add(Op{Actor: "", Kind: "wait", At: gap(6 * sec)})
	// the storm: peers send toward the client, the client writes to old and new peers
	for k := r.Range(30, 90); k > 0; k-- {
		g := gap(int64(r.Range(1, 15)) * ms)
		if r.Chance(1, 2) {
			add(Op{Actor: p.Peers[0].ID, Kind: "peer_send", At: g, A: OpArgs{Target: "c1", Len: r.PickInt([]int{300, 900, 1200}), Flags: []string{"unpermitted"}}})
		} else {
			add(Op{Actor: "c1", Kind: "writeto", At: g, A: OpArgs{Peer: p.Peers[r.Intn(np)].Addr, Len: r.PickInt([]int{100, 700, 1200})}})
		}
	}
	add(Op{Actor: "", Kind: "wait", At: gap(60 * sec)})
	// afterwards the client is alive: a fresh exchange in both directions
	add(Op{Actor: "c1", Kind: "writeto", At: gap(sec), A: OpArgs{Peer: p.Peers[0].Addr, Len: 50}})
	add(Op{Actor: p.Peers[0].ID, Kind: "peer_send", At: gap(8 * sec), A: OpArgs{Target: "c1", Len: 60}})
	add(Op{Actor: "c1", Kind: "close_relay", At: gap(5 * sec)})
	add(Op{Actor: "", Kind: "wait", At: gap(10 * sec)})
	p.QuietNS = 10 * sec
}
