package sim

func init() { generators["C12"] = genC12 }

// genC12: loss / delay / duplication / reordering of the 7 transmissions and of responses,
// concurrent transactions, Close at any point, write errors, all RTO settings.
func genC12(p *Plan, r *RNG) {
	if r.Chance(1, 6) {
		genC12CloseInWrite(p, r)
		return
	}
	if r.Chance(1, 8) {
		genC12Unawaited(p, r)
		return
	}
	p.World = "cli"
	p.Flavor = "txn"
	p.Cfg = Config{Realm: "sim.realm", LatCSns: int64(r.Range(1, 60))*ms + int64(r.Intn(1000))*7 + 3, LatSPns: ms,
		RTOms: r.PickInt([]int{0, 1, 10, 50, 100, 200, 400, 800, 1000, 1600, 1599}), Extra: map[string]int64{}}
	stream := r.Chance(1, 6)
	if stream {
		// the client speaks over a stream (its Conn is a STUNConn): same identifiers, same
		// timetable - the library retransmits whatever the transport is
		p.Cfg.Extra["stream"] = 1
		p.Flavor = "txn-stream"
	}
	n := r.Range(1, 5)
	for i := 0; i < n; i++ {
		g := int64(r.Range(1, 3000)) * ms
		if r.Chance(1, 3) {
			g = int64(r.Range(1, 50)) * ms // overlapping transactions
		}
		p.Ops = append(p.Ops, Op{Actor: "app", Kind: "bind_txn", At: gap(g + int64(i)*1009)})
		// reaction of the scripted server to this transaction
		switch r.Intn(8) {
		case 0: // all lost
			p.Reactions = append(p.Reactions, Reaction{Method: "binding", Txn: i + 1, Do: "drop"})
		case 1, 2: // response only after the k-th transmission
			k := r.Range(1, 7)
			for a := 1; a < k; a++ {
				p.Reactions = append(p.Reactions, Reaction{Method: "binding", Txn: i + 1, Attempt: a, Do: "drop"})
			}
			d := r.PickI64([]int64{0, 0, 10 * ms, 150 * ms, 1700 * ms, 4 * sec, 12 * sec})
			p.Reactions = append(p.Reactions, Reaction{Method: "binding", Txn: i + 1, Attempt: k, Do: "ok", DelayNS: d})
			if r.Chance(1, 2) {
				p.Reactions = append(p.Reactions, Reaction{Method: "binding", Txn: i + 1, Do: "drop"})
			}
		case 3: // foreign transaction id first, then the right one
			p.Reactions = append(p.Reactions, Reaction{Method: "binding", Txn: i + 1, Attempt: 1, Do: "wrongtid"})
			if r.Chance(1, 2) {
				p.Reactions = append(p.Reactions, Reaction{Method: "binding", Txn: i + 1, Attempt: 2, Do: "wrongtid"})
			}
		case 4: // duplicates
			p.Reactions = append(p.Reactions, Reaction{Method: "binding", Txn: i + 1, Do: "dup", DelayNS: r.PickI64([]int64{0, 300 * ms})})
		case 5: // late: after the transaction has failed
			p.Reactions = append(p.Reactions, Reaction{Method: "binding", Txn: i + 1, Attempt: r.Range(1, 7), Do: "ok", DelayNS: 20 * sec})
			p.Reactions = append(p.Reactions, Reaction{Method: "binding", Txn: i + 1, Do: "drop"})
		case 6: // error response
			p.Reactions = append(p.Reactions, Reaction{Method: "binding", Txn: i + 1, Do: "err:400"})
		case 7: // (no reaction scripted: answered at once) - or, half of the time, answered first by somebody else
			if r.Chance(1, 2) {
				p.Reactions = append(p.Reactions, Reaction{Method: "binding", Txn: i + 1, Attempt: r.Range(1, 3), Do: "stranger"})
			}
		}
	}
	switch r.Intn(6) {
	case 0:
		p.Ops = append(p.Ops, Op{Actor: "app", Kind: "client_close", At: gap(int64(r.Range(1, 9000)) * ms)})
		if r.Chance(1, 2) {
			p.Ops = append(p.Ops, Op{Actor: "app", Kind: "bind_txn", At: gap(int64(r.Range(1, 500)) * ms)})
		}
	case 1:
		// write error on the k-th transmission overall
		wr := "WriteTo"
		if stream {
			wr = "Write"
		}
		p.IOFaults = append(p.IOFaults, IOFault{M: Match{Sock: "client", Op: wr, Nth: r.Range(1, 8)}, Do: "error"})
	case 2:
		if stream {
			break // nothing is lost on a stream
		}
		// loss on the way to the server (the server never sees those transmissions)
		for k := r.Range(1, 3); k > 0; k-- {
			p.NetFaults = append(p.NetFaults, NetFault{M: Match{Flow: "c1>srv", What: "binding-req", Nth: r.Range(1, 9)}, Do: r.Pick([]string{"drop", "dup", "delay"}), Arg: int64(r.Range(1, 2500)) * ms})
		}
	}
	if r.Chance(1, 6) {
		cls := r.Pick([]string{"log:*", "lock", "rlock", "unlock", "sock:client:WriteTo", "sock:client:ReadFrom"})
		if stream {
			cls = r.Pick([]string{"log:*", "lock", "rlock", "unlock", "sock:client:Write", "sock:client:Read"})
		}
		p.Stalls = append(p.Stalls, Stall{M: Match{Class: cls, Args: "*", Nth: r.Range(1, 30)}, ParkNS: r.PickI64([]int64{0, 1, ms, 250 * ms, 3 * sec})})
	}
	p.QuietNS = 15 * sec
}

// genC12CloseInWrite: Close (or a second caller) lands while a (re)transmission is inside the
// socket write, which then succeeds or fails - teardown racing an in-flight transmission.
func genC12CloseInWrite(p *Plan, r *RNG) {
	p.World = "cli"
	p.Flavor = "txn-close-in-write"
	p.Cfg = Config{Realm: "sim.realm", LatCSns: int64(r.Range(1, 60))*ms + 3, LatSPns: ms, RTOms: r.PickInt([]int{0, 50, 200, 800}), Extra: map[string]int64{}}
	p.Ops = append(p.Ops, Op{Actor: "app", Kind: "bind_txn", At: gap(int64(r.Range(1, 300)) * ms)})
	if r.Chance(1, 3) {
		p.Ops = append(p.Ops, Op{Actor: "app", Kind: "bind_txn", At: gap(int64(r.Range(1, 100)) * ms)})
	}
	p.Reactions = append(p.Reactions, Reaction{Method: "binding", Do: "drop"})
	k := r.Range(1, 7) // which transmission is caught inside the write
	park := r.PickI64([]int64{100 * ms, sec, 5 * sec})
	p.Stalls = append(p.Stalls, Stall{M: Match{Class: "sock:client:WriteTo", Args: "*", Nth: k}, ParkNS: park})
	if r.Chance(2, 3) {
		p.IOFaults = append(p.IOFaults, IOFault{M: Match{Sock: "client", Op: "WriteTo", Nth: k}, Do: "error"})
	}
	// the close falls somewhere around the parked write
	rto := int64(p.Cfg.RTOms) * ms
	if rto == 0 {
		rto = 200 * ms
	}
	offs, _ := rtoSchedule(rto)
	at := offs[k-1] + park/2
	if r.Chance(1, 4) {
		at = offs[k-1] + r.PickI64([]int64{-ms, 0, 1, park, park + ms})
	}
	if at < ms {
		at = ms
	}
	p.Ops = append(p.Ops, Op{Actor: "app", Kind: "client_close", At: gap(at)})
	p.QuietNS = 20 * sec
}

// genC12Unawaited: the one transaction nobody waits for - the Refresh with lifetime 0 that
// closing the relayed socket sends - goes unanswered for some transmissions while other
// transactions start and finish beside it. Each transaction keeps to its own identifier, its
// own bytes and its own timetable.
func genC12Unawaited(p *Plan, r *RNG) {
	p.World = "cli"
	p.Flavor = "txn-unawaited"
	p.Cfg = Config{Realm: "sim.realm", LatCSns: int64(r.Range(1, 40))*ms + 3, LatSPns: ms, RTOms: r.PickInt([]int{0, 50, 100, 200, 400}), Extra: map[string]int64{}}
	rto := int64(p.Cfg.RTOms) * ms
	if rto == 0 {
		rto = 200 * ms
	}
	p.Ops = append(p.Ops, Op{Actor: "app", Kind: "alloc", At: gap(10 * ms)})
	if r.Chance(1, 2) {
		p.Ops = append(p.Ops, Op{Actor: "app0", Kind: "writeto", At: gap(500 * ms), A: OpArgs{Peer: "10.0.2.1:5000", Len: 20}})
	}
	p.Ops = append(p.Ops, Op{Actor: "app", Kind: "close_relay", At: gap(int64(r.Range(500, 3000)) * ms)})
	// the Refresh 0 is answered at its k-th transmission, or never
	if k := r.Range(2, 8); k <= 7 {
		for a := 1; a < k; a++ {
			p.Reactions = append(p.Reactions, Reaction{Method: "refresh", Attempt: a, Do: "drop"})
		}
	} else {
		p.Reactions = append(p.Reactions, Reaction{Method: "refresh", Do: "drop"})
	}
	for n := r.Range(1, 3); n > 0; n-- {
		g := r.PickI64([]int64{ms, rto / 2, rto - ms, rto + ms, 2 * rto, int64(r.Range(1, 3000)) * ms})
		p.Ops = append(p.Ops, Op{Actor: "app", Kind: "bind_txn", At: gap(g)})
	}
	if r.Chance(1, 3) {
		p.Ops = append(p.Ops, Op{Actor: "app", Kind: "alloc", At: gap(int64(r.Range(1, 2000)) * ms)})
	}
	p.QuietNS = 15 * sec
}
