package sim

import (
	"container/heap"
	"fmt"
	"os"
	"runtime"
	"sort"
	"strings"
	"sync"
	"sync/atomic"
	"testing/synctest"
	"time"
)

// Event is one unit of scheduler work: deliver a datagram, resume a parked goroutine,
// issue a plan operation. Total order: (At, Key, Seq).
type Event struct {
	At  int64
	Key string
	Seq uint64
	Run func()
}

type evHeap []*Event

func (h evHeap) Len() int { return len(h) }
func (h evHeap) Less(i, j int) bool {
	if h[i].At != h[j].At {
		return h[i].At < h[j].At
	}
	if h[i].Key != h[j].Key {
		return h[i].Key < h[j].Key
	}
	return h[i].Seq < h[j].Seq
}
func (h evHeap) Swap(i, j int) { h[i], h[j] = h[j], h[i] }
func (h *evHeap) Push(x any)   { *h = append(*h, x.(*Event)) }
func (h *evHeap) Pop() any {
	old := *h
	n := len(old)
	x := old[n-1]
	*h = old[:n-1]
	return x
}

// Heartbeat is bumped by the driver at every step; a real-time watchdog outside the
// bubble reads it.
var Heartbeat atomic.Int64

// YieldBudget: more yield points than this inside one driver step means a busy loop.
const YieldBudget = 200000

// MaxParksPerRun bounds how many stalls one run injects (a wildcard directive matches many sites).
const MaxParksPerRun = 24

type Kernel struct {
	T0   time.Time
	Plan *Plan

	mu          sync.Mutex
	q           evHeap
	seq         uint64
	wake        chan struct{}
	sleepTarget int64
	parked      int
	visits      map[string]int
	yields      int
	Steps       int

	// canonical log: entries grouped by instant, sorted within an instant
	logOn   bool
	curT    int64
	curLog  []string
	Log     []string
	sigHash uint64

	Stats *Stats

	violMu     sync.Mutex
	Violations []*Violation

	stallIvls    []ivl
	Strict       bool
	ranks        map[uint64]uint64
	opIssued     map[int]bool
	stallCount   []int
	stallFired   []bool
	Free         bool          // free-running mode (race pass): no driver steps, no harness synchronisation on library paths
	doneCh       chan struct{} // closed by Finish in free mode
	Inspecting   atomic.Bool // set while the driver's inspector calls library accessors: no parks
	spinReported bool
	OnFatal      func(v *Violation) // called for spin: persists and exits
}

type Stats struct {
	mu      sync.Mutex
	Faults  map[string]int // fault kind -> fired
	Yields  map[string]int // yield class -> visited
	Parks   map[string]int // yield class -> parked
	Probes  map[string]int // rare-condition probes
	OpsKind map[string]int
	LockSites map[string]int
	Off       bool // free-running mode: no shared counters on library paths
}

func NewStats() *Stats {
	return &Stats{Faults: map[string]int{}, Yields: map[string]int{}, Parks: map[string]int{},
		Probes: map[string]int{}, OpsKind: map[string]int{}, LockSites: map[string]int{}}
}

func (s *Stats) Fault(k string) {
	if s.Off {
		return
	}
	s.mu.Lock()
	s.Faults[k]++
	s.mu.Unlock()
}
func (s *Stats) HasFault(k string) bool {
	s.mu.Lock()
	defer s.mu.Unlock()
	return s.Faults[k] > 0
}
func (s *Stats) Probe(k string) {
	if s.Off {
		return
	}
	s.mu.Lock()
	s.Probes[k]++
	s.mu.Unlock()
}
func (s *Stats) ProbeN(k string, n int) {
	if s.Off || n == 0 {
		return
	}
	s.mu.Lock()
	s.Probes[k] += n
	s.mu.Unlock()
}
func (s *Stats) Op(k string) {
	if s.Off {
		return
	}
	s.mu.Lock()
	s.OpsKind[k]++
	s.mu.Unlock()
}

func NewKernel(p *Plan, logOn bool) *Kernel {
	return &Kernel{
		T0: time.Now(), Plan: p, wake: make(chan struct{}, 1), sleepTarget: -1,
		visits: map[string]int{}, Stats: NewStats(), logOn: logOn, sigHash: 1469598103934665603, doneCh: make(chan struct{}),
	}
}

func (k *Kernel) Now() int64 { return int64(time.Since(k.T0)) }

// Logf appends to the canonical log. Never draws randomness, never reads a real clock.
func (k *Kernel) Logf(format string, args ...any) {
	if k.Free {
		return
	}
	s := fmt.Sprintf(format, args...)
	now := k.Now()
	k.mu.Lock()
	k.logLocked(now, s)
	k.mu.Unlock()
}

var traceKernel = os.Getenv("VERIF_TRACE") != ""

func (k *Kernel) logLocked(now int64, s string) {
	if traceKernel {
		fmt.Fprintf(os.Stderr, "KLOG %d %s\n", now, s)
	}
	if now != k.curT {
		k.flushLocked()
		k.curT = now
	}
	k.curLog = append(k.curLog, s)
}

func (k *Kernel) flushLocked() {
	if len(k.curLog) == 0 {
		return
	}
	sort.Strings(k.curLog)
	for _, e := range k.curLog {
		line := fmt.Sprintf("%d %s", k.curT, e)
		k.sigHash = (k.sigHash ^ HashStr(line)) * 1099511628211
		if k.logOn {
			k.Log = append(k.Log, line)
		}
	}
	k.curLog = k.curLog[:0]
}

func (k *Kernel) Signature() uint64 {
	k.mu.Lock()
	defer k.mu.Unlock()
	k.flushLocked()
	return k.sigHash
}

func (k *Kernel) At(at int64, key string, run func()) { k.atSeq(at, key, 0, run) }

// goid returns the id of the calling goroutine. Ids grow in creation order, which under
// strict scheduling is program order of the (single) running goroutine: a stable identity to
// break ties between goroutines that wait at the same seam at the same instant.
func goid() uint64 {
	var buf [64]byte
	n := runtime.Stack(buf[:], false)
	// "goroutine 123 [..."
	var id uint64
	for i := len("goroutine "); i < n && buf[i] >= '0' && buf[i] <= '9'; i++ {
		id = id*10 + uint64(buf[i]-'0')
	}
	return id
}

// setRank: the calling goroutine is the callback of the rank-th timer created by the library.
func (k *Kernel) setRank(rank uint64) {
	id := goid()
	k.mu.Lock()
	if k.ranks == nil {
		k.ranks = map[uint64]uint64{}
	}
	k.ranks[id] = rank
	k.mu.Unlock()
}

// tieSeq orders goroutines that wait at the same seam at the same instant: timer callbacks by
// the creation order of their timers, all others (started by go statements of a goroutine
// that runs alone) by their ids, after the timer callbacks.
func (k *Kernel) tieSeq(class string) uint64 {
	// a socket has one reader: no tie is possible there, and that is where the library
	// recurses deeply (STUNConn.ReadFrom, one level per segment) - runtime.Stack walks the
	// whole stack to count the frames it elides
	if strings.HasSuffix(class, ":Read") || strings.HasSuffix(class, ":ReadFrom") || strings.HasSuffix(class, ":Accept") {
		return 0
	}
	var pcs [48]uintptr
	if runtime.Callers(0, pcs[:]) == len(pcs) {
		return 0 // deep stack: arrival order decides (no such site has shown a tie)
	}
	id := goid()
	k.mu.Lock()
	r, ok := k.ranks[id]
	k.mu.Unlock()
	if ok {
		return r
	}
	return 1<<40 + id
}

func (k *Kernel) atSeq(at int64, key string, seq uint64, run func()) {
	if k.Free {
		// free-running: a timer is the only link between the scheduling goroutine and run
		d := at - k.Now()
		if d < 0 {
			d = 0
		}
		time.AfterFunc(time.Duration(d), run)
		return
	}
	k.mu.Lock()
	k.seq++
	if seq == 0 {
		seq = k.seq
	}
	heap.Push(&k.q, &Event{At: at, Key: key, Seq: seq, Run: run})
	w := k.sleepTarget >= 0 && at < k.sleepTarget
	k.mu.Unlock()
	if w {
		select {
		case k.wake <- struct{}{}:
		default:
		}
	}
}

// freeGap: in the free-running race pass half of the short gaps between operations (not the
// first two, which set the scene) collapse to zero, so that application calls, requests and
// their responses really coincide; a pure function of the plan.
func freeGap(k *Kernel, p *Plan, idx int, g int64) int64 {
	if k.Free && idx >= 2 && g < 3e9 && Mix(p.Seed, uint64(p.Run), uint64(idx))%2 == 0 {
		return 0
	}
	return g
}

// OpIssued arms the stalls that wait for an operation (Stall.AfterOp).
func (k *Kernel) OpIssued(id int) {
	if k.Free || id == 0 {
		return
	}
	k.mu.Lock()
	if k.opIssued == nil {
		k.opIssued = map[int]bool{}
		k.stallCount = make([]int, len(k.Plan.Stalls))
		k.stallFired = make([]bool, len(k.Plan.Stalls))
	}
	k.opIssued[id] = true
	k.mu.Unlock()
}

func (k *Kernel) After(d int64, key string, run func()) { k.At(k.Now()+d, key, run) }

func (k *Kernel) Violate(v *Violation) {
	v.TNS = k.Now()
	k.violMu.Lock()
	v.Step = k.Steps
	k.Violations = append(k.Violations, v)
	k.violMu.Unlock()
}

func matchStr(pat, s string) bool {
	if pat == "" || pat == "*" {
		return true
	}
	if strings.HasSuffix(pat, "*") {
		return strings.HasPrefix(s, pat[:len(pat)-1])
	}
	return pat == s
}

// Yield is called by library goroutines (never by the driver) at every seam: callbacks,
// logger calls, socket calls, lock acquisitions and releases. The plan decides whether the
// goroutine continues or parks for a virtual duration.
func (k *Kernel) Yield(class, ident string) { k.YieldT(class, ident, "") }

// YieldT is Yield with a tie-breaker: when several goroutines wait at the same seam at the
// same instant (three ChannelBind refreshes started by one timer tick reach the socket write
// together), the driver releases them in the order of tie - derived from what each is about
// to do (the bytes it writes, the line it logs) - not in the order they happened to arrive,
// which belongs to the Go scheduler and changes under preemption.
func (k *Kernel) YieldT(class, ident, tie string) {
	if k.Free {
		return
	}
	if k.Inspecting.Load() {
		return
	}
	key := class + "|" + ident
	k.mu.Lock()
	k.yields++
	spin := k.yields > YieldBudget && !k.spinReported
	if spin {
		k.spinReported = true
	}
	k.mu.Unlock()
	cls := class
	if i := strings.IndexByte(cls, '@'); i > 0 {
		cls = cls[:i]
	}
	if spin {
		v := &Violation{Property: "C09", Class: "spin", Key: map[string]string{"where": yieldBucket(cls)},
			Detail: fmt.Sprintf("more than %d yield points within one scheduler step, last at %s", YieldBudget, key)}
		k.Violate(v)
		if k.OnFatal != nil {
			k.OnFatal(v)
		}
	}
	if k.Strict && strictClass(class) {
		// strict scheduling: every seam hands control back to the driver, which releases
		// one goroutine at a time in (time, site identity) order. The visit is counted - and a
		// stall decided - only after that: of two goroutines that reach one seam at one
		// instant, which is "the n-th visit" must not depend on which of them got there first.
		ch := make(chan struct{})
		ek := "go:" + key
		if tie != "" {
			ek += "#" + tie
		}
		// same seam, same instant, same tie: oldest goroutine first
		k.atSeq(k.Now(), ek, k.tieSeq(class), func() { close(ch) })
		<-ch
	}
	k.mu.Lock()
	n := k.visits[key] + 1
	k.visits[key] = n
	var park int64 = -1
	for i := range k.Plan.Stalls {
		if len(k.stallIvls) >= MaxParksPerRun {
			break
		}
		st := &k.Plan.Stalls[i]
		if st.AfterOp != 0 {
			if !k.opIssued[st.AfterOp] || k.stallFired[i] || !matchStr(st.M.Class, class) || !matchStr(st.M.Args, ident) {
				continue
			}
			k.stallCount[i]++
			if st.M.Nth == 0 || st.M.Nth == k.stallCount[i] {
				k.stallFired[i] = true
				park = st.ParkNS
				break
			}
			continue
		}
		if matchStr(st.M.Class, class) && matchStr(st.M.Args, ident) && (st.M.Nth == 0 || st.M.Nth == n) {
			park = st.ParkNS
			break
		}
	}
	k.mu.Unlock()
	k.Stats.mu.Lock()
	k.Stats.Yields[yieldBucket(cls)]++
	if park >= 0 {
		k.Stats.Parks[yieldBucket(cls)]++
	}
	k.Stats.mu.Unlock()
	if park < 0 {
		return
	}
	ch := make(chan struct{})
	k.mu.Lock()
	k.parked++
	k.stallIvls = append(k.stallIvls, ivl{k.Now(), k.Now() + park})
	k.logLocked(k.Now(), "park "+key)
	k.mu.Unlock()
	k.Stats.Fault("stall")
	k.After(park, "resume:"+key, func() {
		k.mu.Lock()
		k.parked--
		k.mu.Unlock()
		close(ch)
	})
	<-ch
}

// mapLoopFuncs: library functions that call out (callbacks, locks, sockets) from inside a
// loop over a Go map.
var mapLoopFuncs = []string{"allocation.(*Allocation).Close", "allocation.(*Manager).Close", "client.(*TransactionMap).CloseAndDeleteAll"}

func underMapIteration() bool {
	pcs := make([]uintptr, 48)
	n := runtime.Callers(3, pcs)
	frames := runtime.CallersFrames(pcs[:n])
	for {
		f, more := frames.Next()
		for _, m := range mapLoopFuncs {
			if strings.HasSuffix(f.Function, m) {
				return true
			}
		}
		if !more {
			return false
		}
	}
}

func strictClass(class string) bool {
	return class == "lock" || class == "rlock" || strings.HasPrefix(class, "cb:") || strings.HasPrefix(class, "sock:")
}

func yieldBucket(class string) string {
	// log:<fmt> sites are bucketed as "log"; others keep their class
	if strings.HasPrefix(class, "log:") {
		return "log"
	}
	return class
}

// StallIntervals returns every park interval so far (the model widens deadlines over them).
func (k *Kernel) StallIntervals() []ivl {
	k.mu.Lock()
	defer k.mu.Unlock()
	return k.stallIvls
}

func (k *Kernel) Parked() int {
	k.mu.Lock()
	defer k.mu.Unlock()
	return k.parked
}

func (k *Kernel) sleepTo(at int64) {
	d := at - k.Now()
	if d <= 0 {
		return
	}
	k.mu.Lock()
	k.sleepTarget = at
	select {
	case <-k.wake:
	default:
	}
	k.mu.Unlock()
	t := time.NewTimer(time.Duration(d))
	select {
	case <-t.C:
	case <-k.wake:
		t.Stop()
	}
	k.mu.Lock()
	k.sleepTarget = -1
	k.mu.Unlock()
}

// Drive runs the scheduler until the event queue is empty (finished) or a cap is hit.
// idle is called at every point where nothing is due now and nobody is parked.
// Finish ends a free-running run.
func (k *Kernel) Finish() {
	if k.Free {
		close(k.doneCh)
	}
}

func (k *Kernel) Drive(maxSteps int, idle func(now int64), stop func() bool) (reason string) {
	if k.Free {
		<-k.doneCh
		return "stopped"
	}
	for {
		synctest.Wait()
		Heartbeat.Add(1)
		k.mu.Lock()
		k.yields = 0
		var ev *Event
		if len(k.q) > 0 {
			ev = k.q[0]
		}
		parked := k.parked
		k.mu.Unlock()
		if stop != nil && stop() {
			return "stopped"
		}
		now := k.Now()
		if ev == nil {
			if idle != nil {
				idle(now)
			}
			return "drained"
		}
		if ev.At > now {
			if parked == 0 && idle != nil {
				idle(now)
			}
			k.sleepTo(ev.At)
			continue
		}
		k.mu.Lock()
		ev = heap.Pop(&k.q).(*Event)
		k.Steps++
		k.logLocked(now, "ev "+ev.Key)
		k.mu.Unlock()
		ev.Run()
		if k.Steps >= maxSteps {
			return "stepcap"
		}
	}
}

// Fatalf is for harness trouble (never a property verdict).
func Fatalf(format string, args ...any) {
	fmt.Fprintf(os.Stderr, "HARNESS: "+format+"\n", args...)
	os.Exit(2)
}
